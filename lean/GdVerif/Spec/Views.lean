import GdVerif.Proto.Views
/-
  SPEC for C15: the intended protocol-independent view of every response and player type, written
  from RESPONSES.md ("Response table": which generic field exists for which response type, same name
  unless annotated) and reviewed by hand:
    * same-named field ↦ accessor, `Some(…)` when the field is not optional;
    * documented renames: Unreal 2 (`server_info.{name, game_type, map, max_players, num_players,
      password}`, players = `players.players`), Bedrock (`version_name` = game version, `game_mode`
      through the mode's name), Mindustry (`gamemode`, `player_limit`, `players`; i32 counts clamp to
      0 when negative), Epic (`players_maxmimum`);
    * a generic field with no counterpart in the response type is `None`.
-/
namespace Gd.Views.Spec
open Gd.Views

def intended : List (String × String × String × List (String × ViewExpr)) := [
  ("games/eco/types.rs", "CommonPlayer", "Player",
    [("name", .field "name"), ("score", .default)]),
  ("games/eco/types.rs", "CommonResponse", "Response",
    [("name", .default), ("description", .someField "description"), ("game_mode", .default), ("game_version", .someField "game_version"), ("map", .default), ("players_maximum", .field "players_maximum"), ("players_online", .field "players_online"), ("players_bots", .default), ("has_password", .someField "has_password"), ("players", .playersAll "players")]),
  ("games/ffow/types.rs", "CommonResponse", "Response",
    [("name", .someField "name"), ("description", .someField "description"), ("game_mode", .someField "game_mode"), ("game_version", .someField "game_version"), ("map", .someField "map"), ("players_maximum", .field "players_maximum"), ("players_online", .field "players_online"), ("players_bots", .default), ("has_password", .someField "has_password"), ("players", .default)]),
  ("games/jc2m/types.rs", "CommonPlayer", "Player",
    [("name", .field "name"), ("score", .default)]),
  ("games/jc2m/types.rs", "CommonResponse", "Response",
    [("name", .someField "name"), ("description", .someField "description"), ("game_mode", .default), ("game_version", .someField "game_version"), ("map", .default), ("players_maximum", .field "players_maximum"), ("players_online", .field "players_online"), ("players_bots", .default), ("has_password", .someField "has_password"), ("players", .playersAll "players")]),
  ("games/mindustry/types.rs", "CommonResponse", "ServerData",
    [("name", .default), ("description", .someField "description"), ("game_mode", .enumStr "gamemode|Survival=survival,Sandbox=sandbox,Attack=attack,PVP=pvp,Editor=editor"), ("game_version", .default), ("map", .someField "map"), ("players_maximum", .tryIntoOr0 "player_limit"), ("players_online", .tryIntoOr0 "players"), ("players_bots", .default), ("has_password", .default), ("players", .default)]),
  ("games/minecraft/types.rs", "CommonPlayer", "Player",
    [("name", .field "name"), ("score", .default)]),
  ("games/minecraft/types.rs", "CommonResponse", "BedrockResponse",
    [("name", .someField "name"), ("description", .default), ("game_mode", .enumStr "game_mode|Survival=Survival,Creative=Creative,Hardcore=Hardcore,Spectator=Spectator,Adventure=Adventure"), ("game_version", .someField "version_name"), ("map", .optField "map"), ("players_maximum", .field "players_maximum"), ("players_online", .field "players_online"), ("players_bots", .default), ("has_password", .default), ("players", .default)]),
  ("games/minecraft/types.rs", "CommonResponse", "JavaResponse",
    [("name", .default), ("description", .someField "description"), ("game_mode", .default), ("game_version", .someField "game_version"), ("map", .default), ("players_maximum", .field "players_maximum"), ("players_online", .field "players_online"), ("players_bots", .default), ("has_password", .default), ("players", .playersOpt "players")]),
  ("games/minetest/types.rs", "CommonPlayer", "Player",
    [("name", .field "name"), ("score", .default)]),
  ("games/minetest/types.rs", "CommonResponse", "Response",
    [("name", .someField "name"), ("description", .someField "description"), ("game_mode", .default), ("game_version", .someField "game_version"), ("map", .default), ("players_maximum", .field "players_maximum"), ("players_online", .field "players_online"), ("players_bots", .default), ("has_password", .field "has_password"), ("players", .playersAll "players")]),
  ("games/savage2/types.rs", "CommonResponse", "Response",
    [("name", .someField "name"), ("description", .default), ("game_mode", .someField "game_mode"), ("game_version", .default), ("map", .someField "map"), ("players_maximum", .field "players_maximum"), ("players_online", .field "players_online"), ("players_bots", .default), ("has_password", .default), ("players", .default)]),
  ("games/theship/types.rs", "CommonPlayer", "TheShipPlayer",
    [("name", .field "name"), ("score", .someField "score")]),
  ("games/theship/types.rs", "CommonResponse", "Response",
    [("name", .someField "name"), ("description", .default), ("game_mode", .someField "game_mode"), ("game_version", .someField "game_version"), ("map", .someField "map"), ("players_maximum", .field "players_maximum"), ("players_online", .field "players_online"), ("players_bots", .someField "players_bots"), ("has_password", .someField "has_password"), ("players", .playersAll "players")]),
  ("protocols/epic/types.rs", "CommonPlayer", "Player",
    [("name", .field "name"), ("score", .default)]),
  ("protocols/epic/types.rs", "CommonResponse", "Response",
    [("name", .someField "name"), ("description", .default), ("game_mode", .default), ("game_version", .optField "game_version"), ("map", .someField "map"), ("players_maximum", .field "players_maxmimum"), ("players_online", .field "players_online"), ("players_bots", .default), ("has_password", .someField "has_password"), ("players", .playersAll "players")]),
  ("protocols/gamespy/protocols/one/types.rs", "CommonPlayer", "Player",
    [("name", .field "name"), ("score", .someField "score")]),
  ("protocols/gamespy/protocols/one/types.rs", "CommonResponse", "Response",
    [("name", .someField "name"), ("description", .default), ("game_mode", .someField "game_mode"), ("game_version", .someField "game_version"), ("map", .someField "map"), ("players_maximum", .field "players_maximum"), ("players_online", .field "players_online"), ("players_bots", .default), ("has_password", .someField "has_password"), ("players", .playersAll "players")]),
  ("protocols/gamespy/protocols/three/types.rs", "CommonPlayer", "Player",
    [("name", .field "name"), ("score", .someField "score")]),
  ("protocols/gamespy/protocols/three/types.rs", "CommonResponse", "Response",
    [("name", .someField "name"), ("description", .default), ("game_mode", .someField "game_mode"), ("game_version", .someField "game_version"), ("map", .someField "map"), ("players_maximum", .field "players_maximum"), ("players_online", .field "players_online"), ("players_bots", .default), ("has_password", .someField "has_password"), ("players", .playersAll "players")]),
  ("protocols/gamespy/protocols/two/types.rs", "CommonPlayer", "Player",
    [("name", .field "name"), ("score", .someField "score")]),
  ("protocols/gamespy/protocols/two/types.rs", "CommonResponse", "Response",
    [("name", .someField "name"), ("description", .default), ("game_mode", .default), ("game_version", .default), ("map", .someField "map"), ("players_maximum", .field "players_maximum"), ("players_online", .field "players_online"), ("players_bots", .default), ("has_password", .someField "has_password"), ("players", .playersAll "players")]),
  ("protocols/quake/one.rs", "CommonPlayer", "Player",
    [("name", .field "name"), ("score", .someField "score")]),
  ("protocols/quake/two.rs", "CommonPlayer", "Player",
    [("name", .field "name"), ("score", .someField "score")]),
  ("protocols/quake/types.rs", "CommonResponse", "Response",
    [("name", .someField "name"), ("description", .default), ("game_mode", .default), ("game_version", .optField "game_version"), ("map", .someField "map"), ("players_maximum", .field "players_maximum"), ("players_online", .field "players_online"), ("players_bots", .default), ("has_password", .default), ("players", .playersAll "players")]),
  ("protocols/unreal2/types.rs", "CommonPlayer", "Player",
    [("name", .field "name"), ("score", .someField "score")]),
  ("protocols/unreal2/types.rs", "CommonResponse", "Response",
    [("name", .someField "server_info.name"), ("description", .default), ("game_mode", .someField "server_info.game_type"), ("game_version", .default), ("map", .someField "server_info.map"), ("players_maximum", .field "server_info.max_players"), ("players_online", .field "server_info.num_players"), ("players_bots", .default), ("has_password", .someField "server_info.password"), ("players", .playersAll "players.players")]),
  ("protocols/valve/types.rs", "CommonPlayer", "ServerPlayer",
    [("name", .field "name"), ("score", .someField "score")]),
  ("protocols/valve/types.rs", "CommonResponse", "Response",
    [("name", .someField "info.name"), ("description", .default), ("game_mode", .someField "info.game_mode"), ("game_version", .someField "info.game_version"), ("map", .someField "info.map"), ("players_maximum", .field "info.players_maximum"), ("players_online", .field "info.players_online"), ("players_bots", .someField "info.players_bots"), ("has_password", .someField "info.has_password"), ("players", .playersOpt "players")])
]

end Gd.Views.Spec
