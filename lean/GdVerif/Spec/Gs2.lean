import GdVerif.Proto.Gs2
import GdVerif.Spec.GsText
/-
  SPEC for C04 / GameSpy 2 (the "qr2" query protocol; reference reading: node-gamedig
  `protocols/gamespy2.js`).  The request `FE FD 00 <id:4> FF FF FF` asks for the server variables,
  the player table and the team table in one reply:

    00 <id:4>                       header: the request's 4-byte id echoed (the client sends 00 00 00 01)
    key 00 value 00 … 00            variables, ended by an empty key
    00 <rows:1> head 00 … 00 cell 00 …     player table: column heads ended by an empty head, then the rows
    00 <rows:1> head 00 … 00 cell 00 …     team table

  The column heads are sent whatever the number of rows.  A server may send more columns than the
  client knows (`deaths_`, `skill_`, …).
-/
namespace Gd.Gs2.Spec
open Gd Gd.Gs Gd.Gs2

def cstr (s : Bytes) : Bytes := s ++ [0]

/-- abstract server state -/
structure State where
  name : Bytes
  map : Bytes
  hasPassword : Bool
  teams : List Team
  playersMaximum : Nat
  /-- `numplayers`, when the server publishes it -/
  reportedPlayers : Option Nat
  playersMinimum : Option Nat
  players : List Player
  /-- every other variable -/
  extras : List (Bytes × Bytes)
  deriving Repr

/-- the freedoms the protocol leaves a server: columns the client does not know, appended to the
standard ones, each with the text of its cells -/
structure Style where
  playerCols : List (Bytes × Bytes)
  teamCols : List (Bytes × Bytes)
  deriving Repr

def optPair (key : Bytes) (f : α → Bytes) : Option α → List (Bytes × Bytes)
  | none => []
  | some a => [(key, f a)]

def serverPairs (st : State) : List (Bytes × Bytes) :=
  [(bs "hostname", st.name), (bs "mapname", st.map), (bs "password", if st.hasPassword then bs "1" else bs "0"),
   (bs "maxplayers", dec st.playersMaximum)] ++
  optPair (bs "numplayers") dec st.reportedPlayers ++
  optPair (bs "minplayers") dec st.playersMinimum ++
  st.extras

def encPair (p : Bytes × Bytes) : Bytes := cstr p.1 ++ cstr p.2

/-- a table: `00`, row count, heads, empty head, cells row by row -/
def encTable (heads : List Bytes) (rows : List (List Bytes)) : Bytes :=
  [0, UInt8.ofNat rows.length] ++ (heads.map cstr).flatten ++ [0] ++ (rows.map fun r => (r.map cstr).flatten).flatten

def playerHeads (y : Style) : List Bytes := [bs "player_", bs "score_", bs "ping_", bs "team_"] ++ y.playerCols.map (·.1)
def playerRow (y : Style) (p : Player) : List Bytes := [p.name, dec p.score, dec p.ping, dec p.teamIndex] ++ y.playerCols.map (·.2)
def teamHeads (y : Style) : List Bytes := [bs "team_t", bs "score_t"] ++ y.teamCols.map (·.1)
def teamRow (y : Style) (t : Team) : List Bytes := [t.name, dec t.score] ++ y.teamCols.map (·.2)

/-- the reply datagram -/
def reply (y : Style) (st : State) : Bytes :=
  [0] ++ natBE 4 1 ++ ((serverPairs st).map encPair).flatten ++ [0] ++
  encTable (playerHeads y) (st.players.map (playerRow y)) ++
  encTable (teamHeads y) (st.teams.map (teamRow y))

def script (y : Style) (st : State) : List Bytes := [reply y st]

/-- `players_online`: the reported number, or the number of players listed when that is larger (as
the client documents) -/
def expectedOnline (st : State) : Nat :=
  match st.reportedPlayers with
  | none => st.players.length
  | some r => max r st.players.length

/-- the response a user is entitled to -/
def expected (st : State) : Response :=
  { name := st.name, map := st.map, hasPassword := st.hasPassword, teams := st.teams,
    playersMaximum := st.playersMaximum, playersOnline := expectedOnline st, playersMinimum := st.playersMinimum,
    players := st.players, unusedEntries := canon st.extras }

/-- C09: the one request of the protocol -/
def requests : List Bytes := [[0xFE, 0xFD, 0x00] ++ natBE 4 1 ++ [0xFF, 0xFF, 0xFF]]

/-! ### well-formedness -/

/-- text that can travel NUL-terminated -/
def okStr (s : Bytes) : Bool := !s.contains 0 && validUtf8 s

def typedKeys : List Bytes := ["hostname", "mapname", "password", "maxplayers", "numplayers", "minplayers"].map bs

def distinctKeys : List (Bytes × Bytes) → Bool
  | [] => true
  | (k, _) :: r => !(r.any (fun p => p.1 == k)) && distinctKeys r

def wfExtra (e : Bytes × Bytes) : Bool := okStr e.1 && !e.1.isEmpty && okStr e.2 && !typedKeys.contains e.1

def wfCol (std : List Bytes) (c : Bytes × Bytes) : Bool := okStr c.1 && !c.1.isEmpty && okStr c.2 && !std.contains c.1

def wfPlayer (p : Player) : Bool := okStr p.name && p.score < 2 ^ 16 && p.ping < 2 ^ 16 && p.teamIndex < 2 ^ 16
def wfTeam (t : Team) : Bool := okStr t.name && t.score < 2 ^ 16

def wf (y : Style) (st : State) : Bool :=
  okStr st.name && okStr st.map && st.playersMaximum < 2 ^ 32 && st.reportedPlayers.all (· < 2 ^ 32) &&
  st.playersMinimum.all (· < 2 ^ 32) && st.players.length < 256 && st.teams.length < 256 &&
  st.players.all wfPlayer && st.teams.all wfTeam && st.extras.all wfExtra && distinctKeys st.extras &&
  y.playerCols.all (wfCol [bs "player_", bs "score_", bs "ping_", bs "team_"]) &&
  y.teamCols.all (wfCol [bs "team_t", bs "score_t"]) && distinctKeys y.playerCols && distinctKeys y.teamCols &&
  (reply y st).length ≤ 2048

end Gd.Gs2.Spec
