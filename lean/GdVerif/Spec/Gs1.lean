import GdVerif.Proto.Gs1
import GdVerif.Spec.GsText
/-
  SPEC for C04 / GameSpy 1: what a server speaking the GameSpy 1 query protocol sends for an
  abstract server state, and the response a user is entitled to.  Reference reading: node-gamedig
  `protocols/gamespy1.js` and the Unreal Engine `UdpServerQuery` replies:

    \key\value\key\value…\queryid\N.M          one UDP datagram per part, M = 1, 2, …
    …\final\\queryid\N.M                        the last part carries `final` (before or after queryid)

  Player `i`'s fields are `player_i` (or `playername_i`), `frags_i`, `ping_i` and the optional
  `team_i`, `mesh_i`, `skin_i`, `face_i`, `ngsecret_i`, `deaths_i`, `health_i`; Unreal pads numbers
  with a space.  Values contain no backslash.
-/
namespace Gd.Gs1.Spec
open Gd Gd.Gs Gd.Gs1

/-- abstract server state: exactly the data a complete response carries -/
structure State where
  name : Bytes
  map : Bytes
  mapTitle : Option Bytes
  adminContact : Option Bytes
  adminName : Option Bytes
  hasPassword : Bool
  gameMode : Bytes
  gameVersion : Bytes
  playersMaximum : Nat
  playersMinimum : Option Nat
  players : List Player
  /-- `none`: the server does not send the variable (the client documents `true` for that) -/
  tournament : Option Bool
  /-- every other variable the server publishes -/
  extras : List (Bytes × Bytes)
  deriving Repr

/-- the freedoms the protocol leaves a server -/
structure Style where
  queryId : Nat
  /-- number of key/value pairs in each part but the last (parts = cuts + 1) -/
  cuts : List Nat
  /-- `\final\` before `\queryid\N.M` (Unreal) or after it -/
  finalFirst : Bool
  /-- how the password flag is written: 0 = `0`/`1`, 1 = `False`/`True`, 2 = `false`/`true` -/
  pwStyle : Nat
  /-- `admin` instead of `AdminName` -/
  adminShort : Bool
  /-- `playername_i` instead of `player_i` -/
  nameLong : Bool
  /-- booleans (`tournament`, `ngsecret_i`) capitalised -/
  boolUpper : Bool
  /-- spaces in front of the numbers of player fields -/
  pad : Nat
  deriving Repr

def boolText (upper : Bool) (b : Bool) : Bytes :=
  if upper then (if b then bs "True" else bs "False") else (if b then bs "true" else bs "false")

def pwText (style : Nat) (b : Bool) : Bytes :=
  if style == 0 then (if b then bs "1" else bs "0") else boolText (style == 1) b

def optPair (key : Bytes) (f : α → Bytes) : Option α → List (Bytes × Bytes)
  | none => []
  | some a => [(key, f a)]

def padding (y : Style) : Bytes := List.replicate y.pad 32

def fieldKey (kind : String) (i : Nat) : Bytes := bs kind ++ [95] ++ dec i

def playerPairs (y : Style) (i : Nat) (p : Player) : List (Bytes × Bytes) :=
  [(fieldKey (if y.nameLong then "playername" else "player") i, p.name),
   (fieldKey "frags" i, padding y ++ decInt p.score),
   (fieldKey "ping" i, padding y ++ dec p.ping)] ++
  optPair (fieldKey "team" i) (fun t => padding y ++ dec t) p.team ++
  optPair (fieldKey "mesh" i) id p.mesh ++
  optPair (fieldKey "skin" i) id p.skin ++
  optPair (fieldKey "face" i) id p.face ++
  optPair (fieldKey "ngsecret" i) (boolText y.boolUpper) p.secret ++
  optPair (fieldKey "deaths" i) (fun t => padding y ++ dec t) p.deaths ++
  optPair (fieldKey "health" i) (fun t => padding y ++ dec t) p.health

def playersPairsFrom (y : Style) : Nat → List Player → List (Bytes × Bytes)
  | _, [] => []
  | i, p :: r => playerPairs y i p ++ playersPairsFrom y (i + 1) r

def serverPairs (y : Style) (st : State) : List (Bytes × Bytes) :=
  [(bs "hostname", st.name), (bs "mapname", st.map), (bs "gametype", st.gameMode), (bs "gamever", st.gameVersion),
   (bs "maxplayers", dec st.playersMaximum), (bs "password", pwText y.pwStyle st.hasPassword)] ++
  optPair (bs "maptitle") id st.mapTitle ++
  optPair (bs "AdminEMail") id st.adminContact ++
  optPair (bs (if y.adminShort then "admin" else "AdminName")) id st.adminName ++
  optPair (bs "minplayers") dec st.playersMinimum ++
  optPair (bs "tournament") (boolText y.boolUpper) st.tournament

/-- every variable of the reply, in the order sent -/
def allPairs (y : Style) (st : State) : List (Bytes × Bytes) :=
  serverPairs y st ++ st.extras ++ playersPairsFrom y 0 st.players

/-- cut a list into pieces of the given sizes; the remainder is the last piece -/
def chunks : List Nat → List α → List (List α)
  | [], l => [l]
  | n :: r, l => l.take n :: chunks r (l.drop n)

def encPair (p : Bytes × Bytes) : Bytes := [92] ++ p.1 ++ [92] ++ p.2

def queryIdPair (y : Style) (part : Nat) : Bytes × Bytes := (kQueryId, dec y.queryId ++ [46] ++ dec part)

/-- the datagram of part `part` (numbered from 1) out of `total` -/
def encPart (y : Style) (total part : Nat) (ps : List (Bytes × Bytes)) : Bytes :=
  (ps.map encPair).flatten ++
  (if part == total then
    (if y.finalFirst then encPair (kFinal, []) ++ encPair (queryIdPair y part)
     else encPair (queryIdPair y part) ++ encPair (kFinal, []))
   else encPair (queryIdPair y part))

def encPartsFrom (y : Style) (total : Nat) : Nat → List (List (Bytes × Bytes)) → List Bytes
  | _, [] => []
  | i, ps :: r => encPart y total i ps :: encPartsFrom y total (i + 1) r

/-- everything the server sends in answer to `\status\`, in order -/
def script (y : Style) (st : State) : List Bytes :=
  let parts := chunks y.cuts (allPairs y st)
  encPartsFrom y parts.length 1 parts

/-- the response a user is entitled to -/
def expected (st : State) : Response :=
  { name := st.name, map := st.map, mapTitle := st.mapTitle, adminContact := st.adminContact,
    adminName := st.adminName, hasPassword := st.hasPassword, gameMode := st.gameMode,
    gameVersion := st.gameVersion, playersMaximum := st.playersMaximum, playersOnline := st.players.length,
    playersMinimum := st.playersMinimum, players := st.players, tournament := st.tournament.getD true,
    unusedEntries := canon st.extras }

/-- what the raw-variables query returns: exactly the pairs sent -/
def expectedVars (y : Style) (st : State) : Map Bytes := canon (allPairs y st)

/-- C09: the one request of the protocol -/
def requests : List Bytes := [[92] ++ bs "status" ++ [92] ++ bs "xserverquery"]

/-! ### well-formedness (the specification's domain) -/

/-- text that can travel as a key or a value: UTF-8 without backslash and NUL -/
def okText (s : Bytes) : Bool := !s.contains 92 && !s.contains 0 && validUtf8 s

def typedKeys : List Bytes :=
  ["hostname", "mapname", "maptitle", "AdminEMail", "AdminName", "admin", "password", "gametype", "gamever",
   "maxplayers", "minplayers", "tournament", "final", "queryid"].map bs

def distinctKeys : List (Bytes × Bytes) → Bool
  | [] => true
  | (k, _) :: r => !(r.any (fun p => p.1 == k)) && distinctKeys r

def wfPlayer (p : Player) : Bool :=
  okText p.name && p.team.all (· < 2 ^ 8) && p.ping < 2 ^ 16 && p.face.all okText && p.skin.all okText &&
  p.mesh.all okText && (-(2 ^ 31 : Int) ≤ p.score) && (p.score < 2 ^ 31) && p.deaths.all (· < 2 ^ 32) &&
  p.health.all (· < 2 ^ 32)

def wfExtra (e : Bytes × Bytes) : Bool :=
  okText e.1 && okText e.2 && !typedKeys.contains e.1 && (playerField e.1).isNone

def wf (y : Style) (st : State) : Bool :=
  okText st.name && okText st.map && st.mapTitle.all okText && st.adminContact.all okText &&
  st.adminName.all okText && okText st.gameMode && okText st.gameVersion && st.playersMaximum < 2 ^ 32 &&
  st.playersMinimum.all (· < 2 ^ 8) && st.players.all wfPlayer && st.extras.all wfExtra &&
  distinctKeys st.extras && y.queryId < 2 ^ 64 && y.pwStyle < 3 && st.players.length < 2 ^ 16 && y.cuts.length < 2 ^ 16 &&
  (script y st).all (fun d => d.length ≤ 2048)

end Gd.Gs1.Spec
