import GdVerif.Spec.Gs3
import GdVerif.Spec.Faults
/-
  SPEC for C10 on whole GameSpy 3 queries: the exchange of `Spec/Gs3.lean` with FAULTS injected.

  The retried unit is the WHOLE exchange: handshake request → challenge reply → data request → all data packets
  (`get_server_packets`).  An attempt can fail at either stage: at the HANDSHAKE (the challenge reply is lost, or the
  handshake request cannot be sent), or at the DATA stage (the server answers the handshake, then the data packets are
  lost, or the data request cannot be sent) — the two stages `props/families/gs3.py: c10_build` injects.  At the data
  stage the reply may also STOP HALF WAY: before the server falls silent SOME of the data packets still arrive
  (`Attempt.got`: any selection of the packets of the reply, each at most once, in any order, at least one missing).  A plan
  lists the failed attempts and how the unit ends: with the server's valid exchange, with nothing (the client has given
  up), or with a malformed datagram at one of the two stages (at the data stage possibly after some of the packets).
-/
namespace Gd.Gs3.Spec
open Gd Gd.Gs3 Gd.Faults

inductive Stage | handshake | data
  deriving Repr, DecidableEq

/-- one attempt that ends in a timeout-class failure -/
structure Attempt where
  stage : Stage
  /-- `false`: the server falls silent at that stage; `true`: the client's send of that stage fails -/
  sendFault : Bool
  /-- data packets of the reply that still arrive (data stage) before the silence; `[]`: none -/
  got : List Bytes
  deriving Repr, DecidableEq

inductive Ending
  /-- the server answers: handshake reply, then the data packets -/
  | valid
  /-- nothing more is scripted: every attempt failed -/
  | gaveUp
  /-- at that stage (at the data stage: after the data packets `got` of the reply) the server sends `datagram`, which is
  not a reply of the expected kind -/
  | malformed (stage : Stage) (got : List Bytes) (datagram : Bytes)
  deriving Repr, DecidableEq

structure Plan where
  fails : List Attempt
  ending : Ending
  deriving Repr, DecidableEq

/-! The script builders are stated for any challenge `c` and any data request `dreq` (Just Cause 2: Multiplayer speaks the
same exchange with another payload: `Spec/Jc2mFaults.lean`); the GameSpy 3 ones take them from the `Config`. -/

def Attempt.deliveriesAt (c : Int) (a : Attempt) : List Delivery :=
  (match a.stage with | .handshake => [] | .data => [.data (handshakeReply c)]) ++ a.got.map .data ++
  (if a.sendFault then [] else [.silence])

/-- the send flags an attempt consumes: the handshake request, and at the data stage the data request -/
def Attempt.faults (a : Attempt) : List Bool :=
  match a.stage with
  | .handshake => [a.sendFault]
  | .data => [false, a.sendFault]

def Attempt.error (a : Attempt) : ErrKind := attemptError a.sendFault

def Attempt.sendsWith (dreq : Bytes) (a : Attempt) : List (Bytes × Bool) :=
  match a.stage with
  | .handshake => [(handshakeRequest, a.sendFault)]
  | .data => [(handshakeRequest, false), (dreq, a.sendFault)]

/-- `packets`: the data packets of the valid exchange, as they arrive -/
def Ending.deliveriesAt (c : Int) (packets : List Bytes) : Ending → List Delivery
  | .valid => (handshakeReply c :: packets).map .data
  | .gaveUp => []
  | .malformed .handshake got m => got.map .data ++ [.data m]
  | .malformed .data got m => .data (handshakeReply c) :: got.map .data ++ [.data m]

def Ending.faults : Ending → List Bool
  | .valid => [false, false]
  | .gaveUp => []
  | .malformed .handshake _ _ => [false]
  | .malformed .data _ _ => [false, false]

def Ending.sendsWith (dreq : Bytes) : Ending → List (Bytes × Bool)
  | .valid => [(handshakeRequest, false), (dreq, false)]
  | .gaveUp => []
  | .malformed .handshake _ _ => [(handshakeRequest, false)]
  | .malformed .data _ _ => [(handshakeRequest, false), (dreq, false)]

def scriptAt (c : Int) (plan : Plan) (packets : List Bytes) : List Delivery :=
  plan.fails.flatMap (Attempt.deliveriesAt c) ++ plan.ending.deliveriesAt c packets

def sendsWith (dreq : Bytes) (plan : Plan) : List (Bytes × Bool) :=
  plan.fails.flatMap (Attempt.sendsWith dreq) ++ plan.ending.sendsWith dreq

def Attempt.deliveries (cfg : Config) (a : Attempt) : List Delivery := a.deliveriesAt cfg.challenge
def Attempt.sends (cfg : Config) (a : Attempt) : List (Bytes × Bool) := a.sendsWith (dataRequest cfg.challenge)
def Ending.deliveries (cfg : Config) (arrival : List Bytes) (e : Ending) : List Delivery :=
  e.deliveriesAt cfg.challenge arrival
def Ending.sends (cfg : Config) (e : Ending) : List (Bytes × Bool) := e.sendsWith (dataRequest cfg.challenge)

/-- what the peer delivers under the plan, the data packets of the valid exchange arriving as `arrival` -/
def faultyScript (cfg : Config) (plan : Plan) (arrival : List Bytes) : List Delivery :=
  scriptAt cfg.challenge plan arrival

/-- one flag per send of the query -/
def faultyFaults (plan : Plan) : List Bool :=
  plan.fails.flatMap Attempt.faults ++ plan.ending.faults

/-- every datagram the client sends, with its failed flag: each attempt starts with the handshake request -/
def faultySends (cfg : Config) (plan : Plan) : List (Bytes × Bool) :=
  sendsWith (dataRequest cfg.challenge) plan

/-! The same for a reply that carries extra field sections (`ConfigX`): the plans, the flags and the prescribed outcome
do not mention the layout; script and sends take the challenge from the configuration, the packets are those with the
extra sections. -/

def Attempt.deliveriesX (cfg : ConfigX) (a : Attempt) : List Delivery := a.deliveriesAt cfg.challenge
def Attempt.sendsX (cfg : ConfigX) (a : Attempt) : List (Bytes × Bool) := a.sendsWith (dataRequest cfg.challenge)
def Ending.deliveriesX (cfg : ConfigX) (arrival : List Bytes) (e : Ending) : List Delivery :=
  e.deliveriesAt cfg.challenge arrival
def Ending.sendsX (cfg : ConfigX) (e : Ending) : List (Bytes × Bool) := e.sendsWith (dataRequest cfg.challenge)

/-- what the peer delivers under the plan, the data packets of the valid exchange (`dataPacketsX`) arriving as `arrival` -/
def faultyScriptX (cfg : ConfigX) (plan : Plan) (arrival : List Bytes) : List Delivery :=
  scriptAt cfg.challenge plan arrival

def faultySendsX (cfg : ConfigX) (plan : Plan) : List (Bytes × Bool) :=
  sendsWith (dataRequest cfg.challenge) plan

/-- the kind byte a reply of that stage starts with -/
def Stage.kind : Stage → UInt8
  | .handshake => 9
  | .data => 0

/-- a datagram that is not a reply of the stage's kind: empty, or starting with another byte -/
def malformedAt (stage : Stage) (m : Bytes) : Bool := m.head? != some stage.kind

/-- the error it is rejected with -/
def malformedError (m : Bytes) : ErrKind := if m.isEmpty then .packetUnderflow else .packetBad

/-- what still arrives of a reply made of the data packets `pool` at a stage: at the data stage, when the data request
went out, nothing or an incomplete selection of them (`Faults.partOf`); nothing otherwise -/
def gotAt (pool : List Bytes) (stage : Stage) (sendFault : Bool) (got : List Bytes) : Bool :=
  if stage == .data && !sendFault then partOf got pool else got.isEmpty

def Attempt.wf (pool : List Bytes) (a : Attempt) : Bool := gotAt pool a.stage a.sendFault a.got

/-- C10's domain for a retry count and a reply made of the data packets `pool` (single-packet mode: one packet, of which
nothing short of all can arrive) -/
def wfPlan (retries : Nat) (pool : List Bytes) (plan : Plan) : Bool :=
  plan.fails.all (Attempt.wf pool) &&
  (match plan.ending with
   | .valid => plan.fails.length ≤ retries
   | .gaveUp => plan.fails.length == retries + 1
   | .malformed stage got m => plan.fails.length ≤ retries && malformedAt stage m && gotAt pool stage false got)

/-- the outcome C10 prescribes for the packets of the response, `good` being the fault-free ones: those after at most
`retries` failures, the last failure's error after `retries + 1`, the malformed datagram's error at once -/
def packetsOutcome (good : List Bytes) (plan : Plan) : Res (List Bytes) :=
  match plan.ending with
  | .valid => .ok good
  | .gaveUp => .err (lastError Attempt.error plan.fails)
  | .malformed _ _ m => .err (malformedError m)

def faultyPackets (cfg : Config) (st : State) (plan : Plan) : Res (List Bytes) :=
  packetsOutcome (payloads cfg st) plan

def faultyPacketsX (cfg : ConfigX) (st : State) (plan : Plan) : Res (List Bytes) :=
  packetsOutcome (payloadsX cfg st) plan

/-- … and for the query -/
def faultyExpected (st : State) (plan : Plan) : Res Response :=
  match plan.ending with
  | .valid => .ok (expected st)
  | .gaveUp => .err (lastError Attempt.error plan.fails)
  | .malformed _ _ m => .err (malformedError m)

/-- attempts seen on the wire = handshake requests (every attempt starts with one) -/
def attemptsOf (sent : List (Bytes × Bool)) : Nat := (sent.filter fun p => p.1 == handshakeRequest).length

def Plan.attempts (p : Plan) : Nat := p.fails.length + (match p.ending with | .gaveUp => 0 | _ => 1)

end Gd.Gs3.Spec
