import GdVerif.Spec.Jc2m
import GdVerif.Spec.Gs3Faults
/-
  SPEC for C10 on whole Just Cause 2: Multiplayer queries.  The game speaks the GameSpy 3 exchange in single-packet mode
  with its own payload: the retried unit is handshake request → challenge reply → data request → the one data packet.
  Plans, stages and endings are GameSpy 3's (`Spec/Gs3Faults.lean`); only the data request and the packet differ.
-/
namespace Gd.Jc2m.Spec
open Gd Gd.Jc2m Gd.Faults
open Gd.Gs3.Spec (Plan Attempt Ending Stage scriptAt sendsWith faultyFaults wfPlan malformedError)

/-- the reply: one data packet (`Gs3.Spec.wfPlan retries (pool cfg st)`: no failed attempt receives part of it) -/
def pool (cfg : Config) (st : State) : List Bytes := [dataPacket cfg st]

/-- what the peer delivers under the plan -/
def faultyScript (cfg : Config) (st : State) (plan : Plan) : List Delivery :=
  scriptAt cfg.challenge plan [dataPacket cfg st]

/-- every datagram the client sends, with its failed flag -/
def faultySends (cfg : Config) (plan : Plan) : List (Bytes × Bool) := sendsWith (dataRequest cfg.challenge) plan

/-- the outcome C10 prescribes -/
def faultyExpected (st : State) (plan : Plan) : Res Response :=
  match plan.ending with
  | .valid => .ok (expected st)
  | .gaveUp => .err (lastError Attempt.error plan.fails)
  | .malformed _ _ m => .err (malformedError m)

end Gd.Jc2m.Spec
