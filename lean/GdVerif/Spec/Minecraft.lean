import GdVerif.Proto.Minecraft
/-
  SPEC for C03 / C09 (Minecraft): what a conforming server sends for an abstract status and what
  response a user is entitled to; what a conforming client puts on the wire.  Written from the
  protocol documentation (wiki.vg "Server List Ping": current, 1.6, 1.4-1.5, beta 1.8-1.3; RakNet
  "Unconnected Pong" for Bedrock), not from the Rust.

  Numbers of the Java protocol are big-endian; VarInt is the protocol's 7-bit little-endian-group
  encoding of a 32-bit value (`Mc.asVarint`, whose codec laws are C17's theorems); a protocol String is a
  VarInt byte length followed by UTF-8.
-/
namespace Gd.Mc.Spec
open Gd Gd.Mc

/-! ### Java edition, current protocol (Server List Ping) -/

def varint (n : Nat) : Bytes := asVarint n
/-- a packet: VarInt length of the body, then the body (packet id first) -/
def frame (body : Bytes) : Bytes := varint body.length ++ body
/-- a protocol String -/
def mcString (s : Bytes) : Bytes := varint s.length ++ s

/-- Handshake (packet 0x00, state handshaking): protocol version VarInt, server address String,
server port Unsigned Short (big-endian), next state VarInt = 1 (status) -/
def handshake (protocolVersion : Int) (host : Bytes) (port : Nat) : Bytes :=
  frame ([0x00] ++ varint (ofSigned 32 protocolVersion) ++ mcString host ++ natBE 2 port ++ [0x01])

/-- Status Request (packet 0x00, no fields) -/
def statusRequest : Bytes := frame [0x00]

/-- the client's way of ending the exchange: a Ping Request (packet 0x01) WITHOUT its 8-byte payload, which
makes the server close the stream after the status response (adopted as documented behaviour, DESIGN §5 C09) -/
def bareFinalPing : Bytes := frame [0x01]

/-- what a client sends for a status query -/
def javaRequests (st : RequestSettings) (port : Nat) : List Bytes :=
  [handshake st.protocolVersion st.hostname port, statusRequest, bareFinalPing]

/-- the abstract status of a Java server: the members of the status JSON the protocol documents -/
structure JavaStatus where
  versionName : Bytes
  /-- `version.protocol`, an `i32` -/
  protocol : Int
  /-- `players.max`, `players.online`: `u32` -/
  max : Nat
  online : Nat
  sample : Option (List Player)
  /-- a chat component: a JSON string or object (or anything else a server puts there) -/
  description : Json
  favicon : Option Bytes
  previewsChat : Option Bool
  enforcesSecureChat : Option Bool
  deriving Repr

def optMember (k : String) (f : α → Json) : Option α → List (Bytes × Json)
  | none => []
  | some a => [(key k, f a)]

def playerJson (p : Player) : Json := .obj [(key "id", .str p.id), (key "name", .str p.name)]

/-- the status document (members in key order; optional members absent when not set) -/
def statusJson (st : JavaStatus) : Json :=
  .obj ([(key "description", st.description)]
    ++ optMember "enforcesSecureChat" .bool st.enforcesSecureChat
    ++ optMember "favicon" .str st.favicon
    ++ [(key "players", .obj ([(key "max", .num (.int st.max)), (key "online", .num (.int st.online))]
          ++ optMember "sample" (fun ps => .arr (ps.map playerJson)) st.sample))]
    ++ optMember "previewsChat" .bool st.previewsChat
    ++ [(key "version", .obj [(key "name", .str st.versionName), (key "protocol", .num (.int st.protocol))])])

def optJson (f : α → Json) : Option α → Json
  | none => .null
  | some a => f a

/-- a sample-player array element represents a player: whatever else the object carries -/
def RepresentsPlayer (j : Json) (p : Player) : Prop :=
  j.get (key "name") = .str p.name ∧ j.get (key "id") = .str p.id

inductive RepresentsPlayers : List Json → List Player → Prop
  | nil : RepresentsPlayers [] []
  | cons {j p js ps} : RepresentsPlayer j p → RepresentsPlayers js ps → RepresentsPlayers (j :: js) (p :: ps)

/-- A parsed JSON document represents a status when the documented members have the status's values;
member order, unknown members (mod lists, …) and `null` vs. absent optional members do not matter. -/
structure Represents (j : Json) (st : JavaStatus) : Prop where
  name : (j.get (key "version")).get (key "name") = .str st.versionName
  protocol : (j.get (key "version")).get (key "protocol") = .num (.int st.protocol)
  max : (j.get (key "players")).get (key "max") = .num (.int st.max)
  online : (j.get (key "players")).get (key "online") = .num (.int st.online)
  sample : match st.sample with
    | none => (j.get (key "players")).get (key "sample") = .null
    | some ps => ∃ js, (j.get (key "players")).get (key "sample") = .arr js ∧ RepresentsPlayers js ps
  description : j.get (key "description") = st.description
  favicon : j.get (key "favicon") = optJson .str st.favicon
  previewsChat : j.get (key "previewsChat") = optJson .bool st.previewsChat
  enforcesSecureChat : j.get (key "enforcesSecureChat") = optJson .bool st.enforcesSecureChat

/-- Status Response (packet 0x00): the JSON text as a protocol String; `trailing` = whatever the server
still writes before closing (nothing, or a Pong) -/
def statusResponse (text trailing : Bytes) : Bytes :=
  frame ([0x00] ++ mcString text) ++ trailing

/-- the response a user is entitled to (DESIGN §5 C03: `description` is the compact JSON rendering of the
`description` member) -/
def expectedJava (ext : Ext) (st : JavaStatus) : JavaResponse :=
  { gameVersion := st.versionName, protocolVersion := st.protocol, playersMaximum := st.max,
    playersOnline := st.online, players := st.sample, description := ext.renderCompact st.description,
    favicon := st.favicon, previewsChat := st.previewsChat, enforcesSecureChat := st.enforcesSecureChat,
    serverType := .java }

/-- the format's domain: `i32` protocol number, `u32` counts, a JSON text that is a protocol String -/
def wfJava (st : JavaStatus) (text : Bytes) : Bool :=
  (-(2 ^ 31 : Int) ≤ st.protocol) && (st.protocol < 2 ^ 31) && st.max < 2 ^ 32 && st.online < 2 ^ 32 &&
  validUtf8 text && text.length < 2 ^ 31 - 8

/-! ### Bedrock edition (RakNet unconnected ping / pong) -/

/-- RakNet's offline message data id -/
def raknetMagic : Bytes :=
  [0x00, 0xff, 0xff, 0x00, 0xfe, 0xfe, 0xfe, 0xfe, 0xfd, 0xfd, 0xfd, 0xfd, 0x12, 0x34, 0x56, 0x78]

/-- Unconnected Ping (0x01): time (8 bytes, client's choice), MAGIC, client GUID (8 bytes) -/
def unconnectedPing (time guid : Bytes) : Bytes := [0x01] ++ time ++ raknetMagic ++ guid

/-- the time stamp and GUID this client uses -/
def clientTime : Bytes := [0x11, 0x22, 0x33, 0x44, 0x55, 0x66, 0x77, 0x88]
def clientGuid : Bytes := [0, 0, 0, 0, 0, 0, 0, 0]

def bedrockRequests : List Bytes := [unconnectedPing clientTime clientGuid]

/-- `MCPE;name;protocol;version;online;max[;id[;level[;mode[;…]]]]` -/
structure BedrockStatus where
  edition : Bytes
  name : Bytes
  protocol : Bytes
  version : Bytes
  online : Nat
  max : Nat
  serverId : Option Bytes
  levelName : Option Bytes
  gameMode : Option GameMode
  /-- fields after the game mode (numeric game mode, IPv4 / IPv6 port, …) -/
  more : List Bytes
  /-- the server's GUID (8 bytes) -/
  guid : Bytes
  deriving Repr

def gameModeName : GameMode → Bytes
  | .survival => asciiBytes "Survival" | .creative => asciiBytes "Creative" | .hardcore => asciiBytes "Hardcore"
  | .spectator => asciiBytes "Spectator" | .adventure => asciiBytes "Adventure"

/-- the optional fields: each present only if the one before it is -/
def bedrockTail (st : BedrockStatus) : List Bytes :=
  match st.serverId with
  | none => []
  | some i => i :: match st.levelName with
    | none => []
    | some l => l :: match st.gameMode with
      | none => []
      | some g => gameModeName g :: st.more

def bedrockFields (st : BedrockStatus) : List Bytes :=
  [st.edition, st.name, st.protocol, st.version, natDec st.online, natDec st.max] ++ bedrockTail st

def joinFields : List Bytes → Bytes
  | [] => []
  | [f] => f
  | f :: r => f ++ [59] ++ joinFields r

def bedrockString (st : BedrockStatus) : Bytes := joinFields (bedrockFields st)

/-- Unconnected Pong (0x1c): the ping's time, server GUID, MAGIC, then the status as a string with a
big-endian 16-bit length -/
def unconnectedPong (time : Bytes) (st : BedrockStatus) : Bytes :=
  [0x1c] ++ time ++ st.guid ++ raknetMagic ++ natBE 2 (bedrockString st).length ++ bedrockString st

def expectedBedrock (st : BedrockStatus) : BedrockResponse :=
  { edition := st.edition, name := st.name, versionName := st.version, protocolVersion := st.protocol,
    playersMaximum := st.max, playersOnline := st.online, id := st.serverId, map := st.levelName,
    gameMode := st.gameMode, serverType := .bedrock }

/-- a text field: UTF-8 without the separator and without NUL -/
def okField (s : Bytes) : Bool := validUtf8 s && !s.contains 59 && !s.contains 0

/-- the domain: text fields, `u32` counts, the optional fields form a prefix, the pong fits the 1024-byte
datagram buffer of this client -/
def wfBedrock (st : BedrockStatus) : Bool :=
  okField st.edition && okField st.name && okField st.protocol && okField st.version &&
  st.online < 2 ^ 32 && st.max < 2 ^ 32 &&
  (st.serverId.all okField) && (st.levelName.all okField) && st.more.all okField &&
  (st.levelName.isSome → st.serverId.isSome) && (st.gameMode.isSome → st.levelName.isSome) &&
  (!st.more.isEmpty → st.gameMode.isSome) &&
  st.guid.length == 8 && (unconnectedPong clientTime st).length ≤ 1024

/-! ### Legacy Java (kick packet `FF`, length in UTF-16 code units, UTF-16BE text) -/

def legacy16Requests : List Bytes :=
  [[0xFE, 0x01, 0xFA] ++ natBE 2 7 ++ bytesOfUnits .big (utf16Encode ((asciiBytes "GameDig").map (·.toNat)))]
def legacy14Requests : List Bytes := [[0xFE, 0x01]]
def legacyB18Requests : List Bytes := [[0xFE]]

def legacyRequests : LegacyGroup → List Bytes
  | .v1_6 => legacy16Requests | .v1_4 => legacy14Requests | .vb1_8 => legacyB18Requests

/-- ASCII text as scalar values -/
def scalarsOf (s : Bytes) : List Nat := s.map (·.toNat)

/-- kick packet carrying a text given as Unicode scalar values -/
def kick (cs : List Nat) : Bytes :=
  [0xFF] ++ natBE 2 (utf16Encode cs).length ++ bytesOfUnits .big (utf16Encode cs)

/-- 1.6: `§1\0protocol\0version\0motd\0online\0max` -/
structure Legacy16Status where
  protocol : Int
  version : List Nat
  motd : List Nat
  online : Nat
  max : Nat
  deriving Repr

def text16 (st : Legacy16Status) : List Nat :=
  [0xA7, 0x31, 0] ++ scalarsOf (intDec st.protocol) ++ [0] ++ st.version ++ [0] ++ st.motd ++ [0] ++
  scalarsOf (natDec st.online) ++ [0] ++ scalarsOf (natDec st.max)

def kick16 (st : Legacy16Status) : Bytes := kick (text16 st)

def expected16 (st : Legacy16Status) : JavaResponse :=
  { gameVersion := utf8Encode st.version, protocolVersion := st.protocol, playersMaximum := st.max,
    playersOnline := st.online, players := none, description := utf8Encode st.motd, favicon := none,
    previewsChat := none, enforcesSecureChat := none, serverType := .legacy .v1_6 }

def okScalars (avoid : List Nat) (cs : List Nat) : Bool := cs.all (fun c => isScalar c && !avoid.contains c)

def wf16 (st : Legacy16Status) : Bool :=
  (-(2 ^ 31 : Int) ≤ st.protocol) && (st.protocol < 2 ^ 31) && st.online < 2 ^ 32 && st.max < 2 ^ 32 &&
  okScalars [0] st.version && okScalars [0] st.motd && (utf16Encode (text16 st)).length < 65536

/-- 1.4-1.5 and beta 1.8-1.3: `motd§online§max` -/
structure LegacyOldStatus where
  motd : List Nat
  online : Nat
  max : Nat
  deriving Repr

def textOld (st : LegacyOldStatus) : List Nat :=
  st.motd ++ [0xA7] ++ scalarsOf (natDec st.online) ++ [0xA7] ++ scalarsOf (natDec st.max)

def kickOld (st : LegacyOldStatus) : Bytes := kick (textOld st)

def expectedOld (g : LegacyGroup) (st : LegacyOldStatus) : JavaResponse :=
  { gameVersion := (match g with | .vb1_8 => asciiBytes "Beta 1.8+" | _ => asciiBytes "1.4+"),
    protocolVersion := -1, playersMaximum := st.max, playersOnline := st.online, players := none,
    description := utf8Encode st.motd, favicon := none, previewsChat := none, enforcesSecureChat := none,
    serverType := .legacy g }

def wfOld (st : LegacyOldStatus) : Bool :=
  st.online < 2 ^ 32 && st.max < 2 ^ 32 && okScalars [0, 0xA7] st.motd && (utf16Encode (textOld st)).length < 65536

/-! ### what a server speaks (for the auto-detecting query) -/

/-- how a server that does not speak a variant fails to answer on that variant's connection: the
connection is refused / the socket cannot be made, or nothing ever arrives (`k` read time-outs, after
which a TCP peer has closed and a UDP peer stays silent) -/
inductive Mute
  | refused
  | silent (k : Nat)
  deriving Repr

def Mute.conn : Mute → ConnScript
  | .refused => .refused
  | .silent k => .opened (List.replicate k .silence)

def connOf (m : Mute) : Option Bytes → ConnScript
  | some reply => .opened [.data reply]
  | none => m.conn

structure World where
  /-- status and the JSON text the server sends for it -/
  java : Option (JavaStatus × Bytes)
  bedrock : Option BedrockStatus
  v16 : Option Legacy16Status
  v14 : Option LegacyOldStatus
  vb18 : Option LegacyOldStatus
  muteJava : Mute
  muteBedrock : Mute
  mute16 : Mute
  mute14 : Mute
  muteB18 : Mute
  deriving Repr

/-- one connection script per variant, in the order the variants are tried: each variant is asked on a
connection of its own -/
def World.script (w : World) : List ConnScript :=
  [connOf w.muteJava (w.java.map fun p => statusResponse p.2 []),
   connOf w.muteBedrock (w.bedrock.map (unconnectedPong clientTime)),
   connOf w.mute16 (w.v16.map kick16),
   connOf w.mute14 (w.v14.map kickOld),
   connOf w.muteB18 (w.vb18.map kickOld)]

/-- the first variant, in the order Java, Bedrock, 1.6, 1.4, beta 1.8, that the server speaks decides -/
def World.expected (ext : Ext) (w : World) : Res JavaResponse :=
  match w.java with
  | some p => .ok (expectedJava ext p.1)
  | none =>
    match w.bedrock with
    | some st => .ok (JavaResponse.fromBedrock (expectedBedrock st))
    | none =>
      match w.v16 with
      | some st => .ok (expected16 st)
      | none =>
        match w.v14 with
        | some st => .ok (expectedOld .v1_4 st)
        | none =>
          match w.vb18 with
          | some st => .ok (expectedOld .vb1_8 st)
          | none => .err .autoQuery

/-- transports of the connections opened (`true` = TCP): the prefix of `[tcp, udp, tcp, tcp, tcp]` up to the
first variant spoken -/
def World.opened (w : World) : List Bool :=
  if w.java.isSome then [true]
  else if w.bedrock.isSome then [true, false]
  else if w.v16.isSome then [true, false, true]
  else if w.v14.isSome then [true, false, true, true]
  else [true, false, true, true, true]

def World.wf (w : World) : Bool :=
  (w.java.all fun p => wfJava p.1 p.2) && w.bedrock.all wfBedrock && w.v16.all wf16 && w.v14.all wfOld && w.vb18.all wfOld

/-- attempts a retried unit makes on a mute connection: a refused one none; `k` time-outs: TCP sees the closed
stream (an error that is not retried) once the time-outs are used up, UDP stays silent -/
def Mute.attempts (tcp : Bool) (retries : Nat) : Mute → Nat
  | .refused => 0
  | .silent k => if tcp then min (k + 1) (retries + 1) else retries + 1

/-- everything a conforming client sends against this world, in order -/
def World.requests (w : World) (st : RequestSettings) (port retries : Nat) : List Bytes :=
  let rep (n : Nat) (l : List Bytes) : List Bytes := (List.replicate n l).flatten
  match w.java with
  | some _ => javaRequests st port
  | none => rep (w.muteJava.attempts true retries) (javaRequests st port) ++
    match w.bedrock with
    | some _ => bedrockRequests
    | none => rep (w.muteBedrock.attempts false retries) bedrockRequests ++
      match w.v16 with
      | some _ => legacy16Requests
      | none => rep (w.mute16.attempts true retries) legacy16Requests ++
        match w.v14 with
        | some _ => legacy14Requests
        | none => rep (w.mute14.attempts true retries) legacy14Requests ++
          match w.vb18 with
          | some _ => legacyB18Requests
          | none => rep (w.muteB18.attempts true retries) legacyB18Requests

end Gd.Mc.Spec
