import GdVerif.Spec.Valve
import GdVerif.Spec.Faults
/-
  SPEC for C10 on whole Valve queries: the exchange of `Spec/Valve.lean` with FAULTS injected.

  The retried unit of the Valve protocol is one request with all its challenge rounds (`get_request_data`).  A *plan*
  says, for each of the three units, which attempts fail before the server finally answers (or before the client gives
  up), and how each of them fails:

    * a timeout-class failure (`Attempt`): the server answers `answered` challenge rounds of the unit's exchange and
      then either falls silent (the next receive times out) or the client's next send fails;
      `answered = 0` is a fault at the initial request, `answered = (number of challenge rounds)` a fault at the last
      exchange of the attempt — exactly the two stages `props/families/valve.py: c10_build` injects;
      before it falls silent the server may still deliver SOME of the fragments of a split reply (`got`: any selection
      of the reply's datagrams, each at most once, in any order, at least one missing — a reply that stops half way);
    * the end of the unit (`Ending`): the valid exchange, nothing at all (every attempt failed), or a malformed
      datagram (shorter than the 5 bytes of a packet header) after some challenge rounds — and possibly after some of
      the fragments of the split reply.

  `faultyScript` / `faultyFaults` are what the peer delivers and which sends fail (the two arguments of `Net.init`),
  `faultyExpected` the outcome the property prescribes, `faultySends` every datagram the client puts on the wire with
  its failed flag.
-/
namespace Gd.Valve.Spec
open Gd Gd.Valve Gd.Faults

/-- one attempt that ends in a timeout-class failure -/
structure Attempt where
  /-- challenge rounds of the unit's exchange the server still answers in this attempt (a number beyond the rounds the
  exchange has means: all of them) -/
  answered : Nat
  /-- `false`: then the server is silent; `true`: then the client's send fails -/
  sendFault : Bool
  /-- fragments of the unit's split reply that still arrive before the silence (`[]`: none) -/
  got : List Bytes
  deriving Repr, DecidableEq

inductive Ending
  /-- the server answers: the unit's exchange of the SPEC -/
  | valid
  /-- nothing more is scripted for this unit: every attempt failed -/
  | gaveUp
  /-- after `answered` challenge rounds (and the fragments `got` of the split reply) the server sends `datagram`, which
  is not a packet -/
  | malformed (answered : Nat) (got : List Bytes) (datagram : Bytes)
  deriving Repr, DecidableEq

structure UnitPlan where
  fails : List Attempt
  ending : Ending
  deriving Repr, DecidableEq

structure Plan where
  info : UnitPlan
  players : UnitPlan
  rules : UnitPlan
  deriving Repr, DecidableEq

/-- the first `j` challenge replies of an exchange -/
def challengeData (x : Exchange) (j : Nat) : List Delivery :=
  (x.challenges.take j).map fun c => .data (challengeReply c)

def Attempt.deliveries (x : Exchange) (a : Attempt) : List Delivery :=
  challengeData x a.answered ++ a.got.map .data ++ (if a.sendFault then [] else [.silence])

/-- the send flags one failed attempt consumes: every send goes out but, for a send fault, the last -/
def Attempt.faults (x : Exchange) (a : Attempt) : List Bool :=
  List.replicate (x.challenges.take a.answered).length false ++ [a.sendFault]

/-- the error of a timeout-class failure: nothing received / could not send -/
def Attempt.error (a : Attempt) : ErrKind := if a.sendFault then .packetSend else .packetReceive

def Ending.deliveries (x : Exchange) (arrival : List Bytes) : Ending → List Delivery
  | .valid => (exchangeAs x arrival).map .data
  | .gaveUp => []
  | .malformed j got m => challengeData x j ++ got.map .data ++ [.data m]

def Ending.faults (x : Exchange) : Ending → List Bool
  | .valid => List.replicate (1 + x.challenges.length) false
  | .gaveUp => []
  | .malformed j _ _ => List.replicate ((x.challenges.take j).length + 1) false

def UnitPlan.deliveries (x : Exchange) (arrival : List Bytes) (p : UnitPlan) : List Delivery :=
  p.fails.flatMap (Attempt.deliveries x) ++ p.ending.deliveries x arrival

def UnitPlan.faults (x : Exchange) (p : UnitPlan) : List Bool :=
  p.fails.flatMap (Attempt.faults x) ++ p.ending.faults x

/-- what the peer delivers under the plan, the final replies arriving as `ai`, `ap`, `ar`
(no faults: `(scriptAs cfg ai ap ar).map .data`) -/
def faultyScript (cfg : Config) (plan : Plan) (ai ap ar : List Bytes) : List Delivery :=
  plan.info.deliveries cfg.info ai ++
  (if cfg.gather.players == .skip then [] else plan.players.deliveries cfg.players ap) ++
  (if cfg.gather.rules == .skip then [] else plan.rules.deliveries cfg.rules ar)

/-- one flag per send of the query, `true` = that send fails -/
def faultyFaults (cfg : Config) (plan : Plan) : List Bool :=
  plan.info.faults cfg.info ++
  (if cfg.gather.players == .skip then [] else plan.players.faults cfg.players) ++
  (if cfg.gather.rules == .skip then [] else plan.rules.faults cfg.rules)

/-- how a unit ends: `none` = with the server's reply -/
def UnitPlan.error (p : UnitPlan) : Option ErrKind :=
  match p.ending with
  | .valid => none
  | .gaveUp => some (lastError Attempt.error p.fails)
  | .malformed _ _ _ => some .packetUnderflow

/-- a failed attempt of a unit whose reply travels as the datagrams `pool`: what still arrives before the silence is
nothing or an incomplete selection of them (`Faults.partOf`; nothing at all when the attempt ends on a failed send) -/
def Attempt.wf (pool : List Bytes) (a : Attempt) : Bool :=
  if a.sendFault then a.got.isEmpty else partOf a.got pool

/-- the plans C10 speaks about for a retry count and a unit whose reply travels as the datagrams `pool`: a unit that is
answered (validly or not) had at most `retries` timeouts before, a unit that is given up had exactly `retries + 1`; a
malformed datagram is shorter than a packet header and arrives before the reply is complete -/
def wfUnit (retries : Nat) (pool : List Bytes) (p : UnitPlan) : Bool :=
  p.fails.all (Attempt.wf pool) &&
  (match p.ending with
   | .valid => p.fails.length ≤ retries
   | .gaveUp => p.fails.length == retries + 1
   | .malformed _ got m => p.fails.length ≤ retries && m.length < 5 && partOf got pool)

def wfPlan (retries : Nat) (cfg : Config) (st : State) (plan : Plan) : Bool :=
  wfUnit retries (infoDatagrams cfg st) plan.info &&
  (cfg.gather.players == .skip || wfUnit retries (playersDatagrams cfg st) plan.players) &&
  (cfg.gather.rules == .skip || wfUnit retries (rulesDatagrams cfg st) plan.rules)

/-- the same, asked only of the units the query reaches (a unit behind the one that ends the query is never run: its
plan, and whatever else the script holds from there on, is irrelevant) -/
def wfPlanReached (retries : Nat) (cfg : Config) (st : State) (plan : Plan) : Bool :=
  wfUnit retries (infoDatagrams cfg st) plan.info &&
  (plan.info.error.isSome || !appIdOk cfg.engine cfg.gather st.info.appid ||
    ((cfg.gather.players == .skip || wfUnit retries (playersDatagrams cfg st) plan.players) &&
     ((cfg.gather.players == .enforce && plan.players.error.isSome) ||
       cfg.gather.rules == .skip || wfUnit retries (rulesDatagrams cfg st) plan.rules)))

/-- `maybe_gather!` over a unit's end -/
def sectionOutcome (t : Toggle) (p : UnitPlan) (v : α) : Res (Option α) :=
  if t == .skip then .ok none
  else match p.error with
    | none => .ok (some v)
    | some k => if t == .try_ then .ok none else .err k

/-- the outcome C10 (with C11 for the toggles) prescribes: the first unit that does not end with the server's reply
decides — its error if it is the info unit or enforced, an absent section if it is only tried -/
def faultyExpected (cfg : Config) (st : State) (plan : Plan) : Res Response :=
  match plan.info.error with
  | some k => .err k
  | none =>
    if !appIdOk cfg.engine cfg.gather st.info.appid then .err .badGame
    else do
      let players ← sectionOutcome cfg.gather.players plan.players st.players
      let rules ← sectionOutcome cfg.gather.rules plan.rules (expectedRules cfg.engine st.rules)
      pure ⟨st.info, players, rules⟩

/-! ### what goes on the wire -/

/-- the request of a unit: without a challenge (`none`, the first datagram of every attempt) or carrying one -/
def unitRequest (u : Request) (c : Option Bytes) : Bytes :=
  match u, c with
  | .info, none => a2sInfoRequest
  | .info, some c => a2sInfoRequest ++ c
  | .players, none => a2sPlayerRequest noChallenge
  | .players, some c => a2sPlayerRequest c
  | .rules, none => a2sRulesRequest noChallenge
  | .rules, some c => a2sRulesRequest c

/-- the requests of an attempt in which `j` challenge rounds are answered: the initial request, then one request per
challenge, carrying it -/
def requestsUpTo (u : Request) (x : Exchange) (j : Nat) : List Bytes :=
  unitRequest u none :: (x.challenges.take j).map fun c => unitRequest u (some c)

/-- the sends of one failed attempt: the initial request, then one request per challenge answered; all go out, but the
last one when the attempt ends on a send fault (fragments that still arrive cause no send) -/
def Attempt.sends (u : Request) (x : Exchange) (a : Attempt) : List (Bytes × Bool) :=
  flagLast (requestsUpTo u x a.answered) a.sendFault

def Ending.sends (u : Request) (x : Exchange) : Ending → List (Bytes × Bool)
  | .valid => (unitRequest u none :: x.challenges.map fun c => unitRequest u (some c)).map (·, false)
  | .gaveUp => []
  | .malformed j _ _ => (requestsUpTo u x j).map (·, false)

def UnitPlan.sends (u : Request) (x : Exchange) (p : UnitPlan) : List (Bytes × Bool) :=
  p.fails.flatMap (Attempt.sends u x) ++ p.ending.sends u x

/-- every datagram the client sends, with its failed flag, in order: unit after unit, each attempt starting with the
unit's initial request; nothing after the unit that ends the query -/
def faultySends (cfg : Config) (st : State) (plan : Plan) : List (Bytes × Bool) :=
  plan.info.sends .info cfg.info ++
  (if plan.info.error.isSome || !appIdOk cfg.engine cfg.gather st.info.appid then []
   else
    (if cfg.gather.players == .skip then [] else plan.players.sends .players cfg.players) ++
    (if cfg.gather.players == .enforce && plan.players.error.isSome then []
     else if cfg.gather.rules == .skip then [] else plan.rules.sends .rules cfg.rules))

/-! ### the units by name (for statements about "the first unit that …") -/

def Plan.unit (plan : Plan) : Request → UnitPlan
  | .info => plan.info | .players => plan.players | .rules => plan.rules

def exchangeOf (cfg : Config) : Request → Exchange
  | .info => cfg.info | .players => cfg.players | .rules => cfg.rules

/-- the datagrams the reply of a unit travels as -/
def poolOf (cfg : Config) (st : State) : Request → List Bytes
  | .info => infoDatagrams cfg st | .players => playersDatagrams cfg st | .rules => rulesDatagrams cfg st

/-- the gathering toggle of a unit (the info request is always made and always required) -/
def toggleOf (cfg : Config) : Request → Toggle
  | .info => .enforce | .players => cfg.gather.players | .rules => cfg.gather.rules

/-- the units the query runs before / after a unit -/
def earlier : Request → List Request
  | .info => [] | .players => [.info] | .rules => [.info, .players]
def later : Request → List Request
  | .info => [.players, .rules] | .players => [.rules] | .rules => []

/-- the sends of the listed units (those that are gathered), in order -/
def sendsOf (cfg : Config) (plan : Plan) (us : List Request) : List (Bytes × Bool) :=
  us.flatMap fun v => if toggleOf cfg v == .skip then [] else (plan.unit v).sends v (exchangeOf cfg v)

/-- a response with one section absent -/
def withoutSection (r : Response) : Request → Response
  | .info => r | .players => { r with players := none } | .rules => { r with rules := none }

/-- attempts of a unit = initial requests of it on the wire -/
def attemptsOf (u : Request) (sent : List (Bytes × Bool)) : Nat :=
  (sent.filter fun p => p.1 == unitRequest u none).length

/-- the attempts a unit plan consists of: the failed ones, and the one that is answered (if any) -/
def UnitPlan.attempts (p : UnitPlan) : Nat :=
  p.fails.length + (match p.ending with | .gaveUp => 0 | _ => 1)

/-- no challenge of the exchange makes the challenged request look like the initial one (an empty challenge for
`A2S_INFO`, `FFFFFFFF` for the other two) -/
def freshChallenges (u : Request) (x : Exchange) : Bool :=
  x.challenges.all fun c => unitRequest u (some c) != unitRequest u none

/-- the plan without faults -/
def Plan.none : Plan := ⟨⟨[], .valid⟩, ⟨[], .valid⟩, ⟨[], .valid⟩⟩

end Gd.Valve.Spec
