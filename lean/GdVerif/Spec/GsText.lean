import GdVerif.Base
/-
  Text conventions shared by the GameSpy 1 and GameSpy 2 SPEC encoders: numbers travel as decimal
  text.
-/
namespace Gd.Gs

def bs (s : String) : Bytes := asciiBytes s

/-- decimal digits of `n`, most significant first (fuel: any number above `n`) -/
def decAux : Nat → Nat → Bytes
  | 0, _ => []
  | f + 1, n => if n < 10 then [UInt8.ofNat (48 + n)] else decAux f (n / 10) ++ [UInt8.ofNat (48 + n % 10)]

/-- decimal text of a natural number -/
def dec (n : Nat) : Bytes := decAux (n + 1) n

/-- decimal text of an integer -/
def decInt (i : Int) : Bytes := if i < 0 then 45 :: dec (-i).toNat else dec i.toNat

end Gd.Gs
