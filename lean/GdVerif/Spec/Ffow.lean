import GdVerif.Proto.Ffow
import GdVerif.Spec.Valve
/-
  SPEC for C07 / Frontlines: Fuel of War.  Written from node-gamedig's reader (`protocols/ffow.js`, a subclass of
  its Valve reader with `byteorder = 'be'`):

      sendPacket(0x46, 'LSQ', 0x49)            // request  FFFFFFFF 46 "LSQ", reply  FFFFFFFF 49 …
      protocol = uint(1); name = string(); map = string(); mod = string(); gamemode = string();
      description = string(); version = string(); gamePort = uint(2); numplayers = uint(1); maxplayers = uint(1);
      listentype = char; environment = char; password = uint(1); secure = uint(1); averagefps = uint(1);
      round = uint(1); maxrounds = uint(1); timeleft = uint(2)

  Multi-byte integers are BIG endian (`byteorder = 'be'`).  The framing (`FFFFFFFF` + kind) and the type /
  environment letters are the Valve protocol's (`Spec/Valve.lean`).  Default query port: 5478 (game port 5476 + 2).
-/
namespace Gd.Ffow.Spec
open Gd Gd.Valve.Spec
open Gd.Valve (ServerType Environment)

/-- abstract server state: what the reply carries -/
structure State where
  protocol : Nat
  name : Bytes
  map : Bytes
  mod : Bytes
  gameMode : Bytes
  description : Bytes
  version : Bytes
  gamePort : Nat
  numPlayers : Nat
  maxPlayers : Nat
  listenType : ServerType
  environment : Environment
  password : Bool
  secure : Bool
  averageFps : Nat
  round : Nat
  maxRounds : Nat
  timeLeft : Nat
  deriving Repr

def be (w n : Nat) : Bytes := natBE w n

/-- body of the reply (after `FFFFFFFF 49`); `upper`: the letters may come in either case -/
def encode (upper : Bool) (st : State) : Bytes :=
  u8 st.protocol ++ cstr st.name ++ cstr st.map ++ cstr st.mod ++ cstr st.gameMode ++ cstr st.description ++
  cstr st.version ++ be 2 st.gamePort ++ u8 st.numPlayers ++ u8 st.maxPlayers ++
  u8 (serverTypeByte upper st.listenType) ++ u8 (environmentByte upper st.environment) ++
  boolByte st.password ++ boolByte st.secure ++ u8 st.averageFps ++ u8 st.round ++ u8 st.maxRounds ++
  be 2 st.timeLeft

/-- the reply datagram -/
def replyPacket (upper : Bool) (st : State) : Bytes := reply 0x49 (encode upper st)

def script (upper : Bool) (st : State) : List Bytes := [replyPacket upper st]

/-- the response a user is entitled to -/
def expected (st : State) : Ffow.Response :=
  { protocolVersion := st.protocol, name := st.name, activeMod := st.mod, gameMode := st.gameMode,
    gameVersion := st.version, description := st.description, map := st.map, playersOnline := st.numPlayers,
    playersMaximum := st.maxPlayers, serverType := st.listenType, environmentType := st.environment,
    hasPassword := st.password, vacSecured := st.secure, round := st.round, roundsMaximum := st.maxRounds,
    timeLeft := st.timeLeft }

/-- C09: `FFFFFFFF 46 "LSQ"`, once -/
def lsqRequest : Bytes := header ++ [0x46] ++ asciiBytes "LSQ"
def requests (_ : State) : List Bytes := [lsqRequest]
def defaultPort : Nat := 5478

def wf (st : State) : Bool :=
  st.protocol < 256 && okStr st.name && okStr st.map && okStr st.mod && okStr st.gameMode && okStr st.description &&
  okStr st.version && st.gamePort < 65536 && st.numPlayers < 256 && st.maxPlayers < 256 && st.averageFps < 256 &&
  st.round < 256 && st.maxRounds < 256 && st.timeLeft < 65536

end Gd.Ffow.Spec
