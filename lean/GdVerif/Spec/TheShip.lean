import GdVerif.Proto.TheShip
import GdVerif.Spec.Valve
/-
  SPEC for C07 / The Ship.  The Ship speaks the Valve A2S protocol (`Spec/Valve.lean`) with app id 2400 and the
  documented additions: `A2S_INFO` carries Mode, Witnesses, Duration after the VAC byte, every `A2S_PLAYER` entry
  carries Deaths and Money.  Nothing is re-encoded here: the server is a `Valve.Spec.State` answered through a
  `Valve.Spec.Config` whose engine is app 2400 and whose gathering settings are the defaults; this file only
  says what response a user of the game's own query is entitled to.
-/
namespace Gd.TheShip.Spec
open Gd Gd.Valve Gd.Valve.Spec

def shipEngine : Engine := Engine.new 2400

/-- the game's own query always uses app 2400 and the default gathering settings -/
def shipConfig (cfg : Config) : Config := { cfg with engine := shipEngine, gather := Gather.default }

def playerOf (p : ServerPlayer) : TheShip.Player :=
  ⟨p.name, p.score, p.duration, p.deaths.getD 0, p.money.getD 0⟩

/-- the response a user is entitled to: every field of the three replies under the correspondingly named
field (`BadGame` when the server is not The Ship) -/
def expected (st : State) : Res TheShip.Response :=
  if st.info.appid != 2400 then .err .badGame
  else .ok
    { protocolVersion := st.info.protocolVersion, name := st.info.name, map := st.info.map,
      gameMode := st.info.gameMode, gameVersion := st.info.gameVersion, players := st.players.map playerOf,
      playersOnline := st.info.playersOnline, playersMaximum := st.info.playersMaximum,
      playersBots := st.info.playersBots, serverType := st.info.serverType, hasPassword := st.info.hasPassword,
      vacSecured := st.info.vacSecured,
      port := st.info.extraData.bind (·.port), steamId := st.info.extraData.bind (·.steamId),
      tvPort := st.info.extraData.bind (·.tvPort), tvName := st.info.extraData.bind (·.tvName),
      keywords := st.info.extraData.bind (·.keywords), rules := st.rules,
      mode := (st.info.theShip.map (·.mode)).getD 0, witnesses := (st.info.theShip.map (·.witnesses)).getD 0,
      duration := (st.info.theShip.map (·.duration)).getD 0 }

def defaultPort : Nat := 27015

/-- the domain: a well-formed Valve state for engine app 2400 (ship fields present, every player with deaths
and money) -/
def wf (cfg : Config) (st : State) : Bool := Valve.Spec.wf (shipConfig cfg) st

end Gd.TheShip.Spec
