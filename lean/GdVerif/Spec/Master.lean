import GdVerif.Base
/-
  SPEC for C16: a reference reader of Master Server Query Protocol requests
  (`'1' region seed-ip ':' seed-port NUL filter NUL`,
   filter = `(\key\value)* [\nand\N (\key\value)^N] [\nor\N (\key\value)^N]`)
  and the abstract denotation of a filter set: three groups of key/value pairs.
  Independent of the MODEL (imports only Base).
-/
namespace Gd.Master.Spec

abbrev KV := Bytes × Bytes

structure Request where
  region : Nat
  seed : Bytes
  plain : List KV
  nand : List KV
  nor : List KV
  deriving Repr, DecidableEq

/-- take `n` key/value pairs off a token list -/
def takePairs : Nat → List Bytes → Option (List KV × List Bytes)
  | 0, toks => some ([], toks)
  | n + 1, k :: v :: r => (takePairs n r).map fun (ps, rest) => ((k, v) :: ps, rest)
  | _ + 1, _ => none

def nandKey : Bytes := asciiBytes "nand"
def norKey : Bytes := asciiBytes "nor"

/-- plain pairs up to the first group marker (or the end) -/
def takePlain : List Bytes → Option (List KV × List Bytes)
  | [] => some ([], [])
  | k :: v :: r =>
    if k == nandKey || k == norKey then some ([], k :: v :: r)
    else (takePlain r).map fun (ps, rest) => ((k, v) :: ps, rest)
  | [_] => none

/-- an optional `\name\N` group -/
def takeGroup (name : Bytes) : List Bytes → Option (List KV × List Bytes)
  | k :: n :: r =>
    if k == name then
      match parseUnsigned 64 n with
      | some cnt => if cnt == 0 then none else takePairs cnt r
      | none => none
    else some ([], k :: n :: r)
  | toks => some ([], toks)

/-- the filter string (without its terminating NUL) -/
def parseFilter (s : Bytes) : Option (List KV × List KV × List KV) :=
  match splitOn 0x5c s with
  | [] => none
  | first :: toks =>
    if !first.isEmpty then none
    else match takePlain toks with
      | none => none
      | some (plain, r1) =>
        match takeGroup nandKey r1 with
        | none => none
        | some (nand, r2) =>
          match takeGroup norKey r2 with
          | none => none
          | some (nor, r3) => if r3.isEmpty then some (plain, nand, nor) else none

/-- split at the first NUL -/
def untilNul : Bytes → Option (Bytes × Bytes)
  | [] => none
  | b :: r => if b == 0 then some ([], r) else (untilNul r).map fun (s, rest) => (b :: s, rest)

/-- the whole request datagram -/
def parse (payload : Bytes) : Option Request :=
  match payload with
  | 0x31 :: region :: rest =>
    match untilNul rest with
    | none => none
    | some (seed, rest2) =>
      match untilNul rest2 with
      | none => none
      | some (filter, rest3) =>
        if !rest3.isEmpty then none
        else (parseFilter filter).map fun (p, a, o) => ⟨region.toNat, seed, p, a, o⟩
  | _ => none

end Gd.Master.Spec
