import GdVerif.Proto.Jc2m
import GdVerif.Spec.Gs3
/-
  SPEC for C07 (Just Cause 2: Multiplayer).  Reference reading: node-gamedig `jc2mp.js` on top of
  `gamespy3.js`: the GameSpy 3 exchange with the request payload `FF FF FF 02`; the reply is ONE data
  packet whose 11 bytes after the session id (the split header) carry nothing; then the key/values
  ended by an empty key, a big-endian u16 player count, and per player `name 00 steamid 00 ping16`.
-/
namespace Gd.Jc2m.Spec
open Gd Gd.Gs3 Gd.Jc2m

def cstr (s : Bytes) : Bytes := s ++ [0]

/-- the server: all its variables in the order sent, and its players -/
structure State where
  vars : Vars
  players : List Player
  deriving Repr

structure Config where
  challenge : Int
  /-- the 11 bytes between the session id and the payload -/
  splitHeader : Bytes
  deriving Repr

def encPlayer (p : Player) : Bytes := cstr p.name ++ cstr p.steamId ++ natBE 2 p.ping

def payload (st : State) : Bytes :=
  Gs3.Spec.encVars st.vars ++ natBE 2 st.players.length ++ (st.players.map encPlayer).flatten

def dataPacket (cfg : Config) (st : State) : Bytes := [0] ++ Gs3.Spec.sessionId ++ cfg.splitHeader ++ payload st

/-- everything the server sends, in order -/
def script (cfg : Config) (st : State) : List Bytes := [Gs3.Spec.handshakeReply cfg.challenge, dataPacket cfg st]

def var (st : State) (k : String) : Option Bytes := mapGet st.vars (asciiBytes k)

/-- the response: each field from the variable of the same meaning, the player count the larger of the
reported and the listed one, every player as sent -/
def expected (st : State) : Response :=
  { gameVersion := (var st "version").getD []
    description := (var st "description").getD []
    name := (var st "hostname").getD []
    hasPassword := Gs3.Spec.flagOf ((var st "password").getD [])
    players := st.players
    playersMaximum := Gs3.Spec.numOf 32 (var st "maxplayers")
    playersOnline := max (Gs3.Spec.numOf 64 (var st "numplayers")) st.players.length }

def dataRequest (c : Int) : Bytes :=
  [0xFE, 0xFD, 0x00] ++ Gs3.Spec.sessionId ++ (if c = 0 then [] else natBE 4 (ofSigned 32 c)) ++ [0xFF, 0xFF, 0xFF, 0x02]

def requests (cfg : Config) : List Bytes := [Gs3.Spec.handshakeRequest, dataRequest cfg.challenge]

def wfPlayer (p : Player) : Bool := Gs3.Spec.okStr p.name && Gs3.Spec.okStr p.steamId && p.ping < 2 ^ 16

def wf (cfg : Config) (st : State) : Bool :=
  st.vars.all (fun p => Gs3.Spec.okItem p.1 && Gs3.Spec.okStr p.2) && Valve.Spec.distinctKeys st.vars &&
  (var st "version").isSome && (var st "description").isSome && (var st "hostname").isSome &&
  ((var st "password").any Gs3.Spec.isFlag) &&
  ((var st "maxplayers").any fun v => (parseUnsigned 32 v).isSome) &&
  ((var st "numplayers").all fun v => (parseUnsigned 32 v).isSome) &&
  st.players.all wfPlayer && st.players.length < 2 ^ 16 &&
  cfg.splitHeader.length == 11 &&
  (-(2 ^ 31 : Int) ≤ cfg.challenge) && (cfg.challenge < 2 ^ 31) &&
  (dataPacket cfg st).length ≤ Gs3.PACKET_SIZE

end Gd.Jc2m.Spec
