import GdVerif.Proto.Quake
/-
  SPEC for C05: what a Quake 1 (QuakeWorld) / Quake 2 / Quake 3 server sends in answer to a status
  request, and what response a user is entitled to.  Written from the servers' own print formats
  (QuakeWorld `SVC_Status`, Quake 2 `SVC_Status` / `SV_StatusString`, Quake 3 `SVC_Status`) and the
  reference reader (node-gamedig `protocols/quake1.js`, `quake2.js`, `quake3.js`), not from the Rust:

    reply   = FF FF FF FF  header  \key\value\key\value…  LF  line*  [00]
    header  = "n" (Quake 1) | "print" LF (Quake 2) | "statusResponse" LF (Quake 3)
    line    = id SP frags SP time SP ping SP "name" SP "skin" SP color SP color LF      (Quake 1)
            | frags SP ping SP "name" [SP "address"] LF                                 (Quake 2 / 3)

  Numbers are printed with `%i`.  QuakeWorld ends the packet with a NUL byte.  Names are written between
  double quotes (and may then contain spaces); a field written without quotes ends at the next space.
-/
namespace Gd.Quake.Spec
open Gd Gd.Quake

/-! ### `%i` -/

def digit (n : Nat) : UInt8 := UInt8.ofNat (48 + n)

/-- decimal digits of `n`, most significant first (fuel: `n + 1` is always enough) -/
def decAux : Nat → Nat → Bytes
  | 0, _ => []
  | f + 1, n => if n < 10 then [digit n] else decAux f (n / 10) ++ [digit (n % 10)]

def dec (n : Nat) : Bytes := decAux (n + 1) n

def decInt (i : Int) : Bytes := if i < 0 then 0x2D :: dec (-i).toNat else dec i.toNat

/-! ### the reply -/

/-- one player line: the player and how the server writes its two text fields -/
structure Line where
  player : Player
  /-- the name is written between double quotes -/
  quoteName : Bool
  /-- the skin (Quake 1) / address (Quake 2, 3) is written between double quotes -/
  quoteExtra : Bool
  deriving Repr, DecidableEq

/-- abstract server state: the variables in the order the server lists them, the player lines -/
structure State where
  vars : Vars
  lines : List Line
  deriving Repr

structure Config where
  version : Version
  /-- the packet ends with a NUL byte (QuakeWorld) -/
  trailingNul : Bool
  deriving Repr

def sp : Bytes := [0x20]
def lf : Bytes := [0x0A]
def quote : Bytes := [0x22]

def text (quoted : Bool) (s : Bytes) : Bytes := if quoted then quote ++ s ++ quote else s

/-- a player line without its line feed -/
def encLineBody (l : Line) : Bytes :=
  match l.player with
  | .one p =>
    dec p.id ++ sp ++ dec p.score ++ sp ++ dec p.time ++ sp ++ dec p.ping ++ sp ++ text l.quoteName p.name ++ sp ++
      text l.quoteExtra p.skin ++ sp ++ dec p.colorPrimary ++ sp ++ dec p.colorSecondary
  | .two p =>
    decInt p.score ++ sp ++ dec p.ping ++ sp ++ text l.quoteName p.name ++
      (match p.address with
       | none => []
       | some a => sp ++ text l.quoteExtra a)

def encLine (l : Line) : Bytes := encLineBody l ++ lf

def encVar (kv : Bytes × Bytes) : Bytes := [0x5C] ++ kv.1 ++ [0x5C] ++ kv.2

def encVars (vs : Vars) : Bytes := (vs.map encVar).flatten ++ lf

def header : Version → Bytes
  | .one => asciiBytes "n"
  | .two => asciiBytes "print" ++ lf
  | .three => asciiBytes "statusResponse" ++ lf

/-- what follows the out-of-band marker and the header -/
def body (cfg : Config) (st : State) : Bytes :=
  encVars st.vars ++ (st.lines.map encLine).flatten ++ (if cfg.trailingNul then [0x00] else [])

def reply (cfg : Config) (st : State) : Bytes := [0xFF, 0xFF, 0xFF, 0xFF] ++ header cfg.version ++ body cfg st

/-- everything the server sends, in order, when nothing is lost -/
def script (cfg : Config) (st : State) : List Bytes := [reply cfg st]

/-! ### requests (C09) -/

/-- out-of-band `status` (Quake 1, 2) / `getstatus` (Quake 3), NUL terminated -/
def request : Version → Bytes
  | .one => [0xFF, 0xFF, 0xFF, 0xFF] ++ asciiBytes "status" ++ [0x00]
  | .two => [0xFF, 0xFF, 0xFF, 0xFF] ++ asciiBytes "status" ++ [0x00]
  | .three => [0xFF, 0xFF, 0xFF, 0xFF] ++ asciiBytes "getstatus" ++ [0x00]

/-- the requests a conforming client sends: one -/
def requests (cfg : Config) (_st : State) : List Bytes := [request cfg.version]

/-! ### the response a user is entitled to -/

/-- the variables the response names, with their alternate spellings -/
def hostnameKey : Bytes := asciiBytes "hostname"
def hostnameAlt : Bytes := asciiBytes "sv_hostname"
def mapKey : Bytes := asciiBytes "mapname"
def mapAlt : Bytes := asciiBytes "map"
def maxKey : Bytes := asciiBytes "maxclients"
def maxAlt : Bytes := asciiBytes "sv_maxclients"
def versionKey : Bytes := asciiBytes "version"
def versionAlt : Bytes := asciiBytes "*version"

/-- the variable a field is taken from: the first spelling the server lists, with its value -/
def named (vars : Vars) (k1 k2 : Bytes) : Option (Bytes × Bytes) :=
  match vars.lookup k1 with
  | some v => some (k1, v)
  | none => (vars.lookup k2).map fun v => (k2, v)

def without (vars : Vars) (used : List Bytes) : Vars := vars.filter fun p => !used.contains p.1

def optKey (o : Option (Bytes × Bytes)) : List Bytes :=
  match o with
  | some (k, _) => [k]
  | none => []

/-- host name from `hostname` / `sv_hostname`, map from `mapname` / `map`, the maximum from `maxclients` /
`sv_maxclients` (decimal), the version from `version` / `*version` when there is one; one player per line, the
count is the number of lines; every other variable unchanged in `unused`.  A reply that does not name the host,
the map and the maximum is not a usable status (`PacketBad`). -/
def expected (_cfg : Config) (st : State) : Res Response :=
  match named st.vars hostnameKey hostnameAlt, named st.vars mapKey mapAlt, named st.vars maxKey maxAlt with
  | some (kn, name), some (km, map), some (kx, mx) =>
    match parseUnsigned 8 mx with
    | none => .err .typeParse
    | some maxClients =>
      let ver := named st.vars versionKey versionAlt
      .ok { name, map, players := st.lines.map (·.player), playersOnline := st.lines.length,
            playersMaximum := maxClients, gameVersion := ver.map (·.2),
            unused := without st.vars ([kn, km, kx] ++ optKey ver) }
  | _, _, _ => .err .packetBad

/-! ### well-formedness (the specification's domain) -/

/-- text that can stand in the variables line: valid UTF-8 (the response holds Rust `String`s) without the
separator and the line feed -/
def okVarText (s : Bytes) : Bool := validUtf8 s && !s.contains 0x5C && !s.contains 0x0A

/-- a name / skin / address: valid UTF-8 without `"` and line feed; without quotes around it, also without space -/
def okField (quoted : Bool) (s : Bytes) : Bool :=
  validUtf8 s && !s.contains 0x22 && !s.contains 0x0A && (quoted || !s.contains 0x20)

def wfLine (v : Version) (l : Line) : Bool :=
  match l.player with
  | .one p =>
    v == .one && p.id < 2 ^ 8 && p.score < 2 ^ 16 && p.time < 2 ^ 16 && p.ping < 2 ^ 16 &&
      okField l.quoteName p.name && okField l.quoteExtra p.skin && p.colorPrimary < 2 ^ 8 && p.colorSecondary < 2 ^ 8
  | .two p =>
    v != .one && decide (-(2 ^ 31 : Int) ≤ p.score) && decide (p.score < 2 ^ 31) && p.ping < 2 ^ 16 &&
      okField l.quoteName p.name && p.address.all (okField l.quoteExtra)

def distinctKeys : Vars → Bool
  | [] => true
  | (k, _) :: r => !(r.any (fun p => p.1 == k)) && distinctKeys r

def wf (cfg : Config) (st : State) : Bool :=
  st.vars.all (fun p => okVarText p.1 && okVarText p.2) && distinctKeys st.vars &&
  (named st.vars hostnameKey hostnameAlt).isSome && (named st.vars mapKey mapAlt).isSome &&
  (match named st.vars maxKey maxAlt with
   | some (_, mx) => (parseUnsigned 8 mx).isSome
   | none => false) &&
  st.lines.all (wfLine cfg.version) && st.lines.length < 256 &&
  -- one UDP datagram
  (reply cfg st).length ≤ 65535

end Gd.Quake.Spec
