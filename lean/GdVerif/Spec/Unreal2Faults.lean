import GdVerif.Spec.Unreal2
import GdVerif.Spec.Faults
/-
  SPEC for C10 on whole Unreal 2 queries: the exchange of `Spec/Unreal2.lean` with FAULTS injected.

  The query has three retried units — server info, mutators and rules, players —, each one request and its FIRST reply
  datagram under `retry_on_timeout`.  The further datagrams of the rules / players answer are taken by a listening loop
  that ends at the first silence (rules) or when the announced number of players is there; that loop is NOT part of the
  retried unit: a silence in it never causes a new request.  A plan gives, per unit, the attempts that end in a
  timeout-class failure (`false`: the request goes out and nothing comes back, `true`: the request cannot be sent) and
  how the unit ends: with the server's answer, with nothing (the client has given up), or with a malformed first
  datagram.  The optional sections are gathered under their toggles (`cfg.gather`): a skipped section is never asked
  for, the failure of a section that is only tried leaves the response intact with that section absent, the failure
  of an enforced section (and of the server info, always required) ends the query — later units are not asked for.
  Only the toggles, the retry count and the cuts of `cfg` matter here (the plan replaces its section outcomes).
-/
namespace Gd.Unreal2.Spec
open Gd Gd.Unreal2 Gd.Faults

inductive Ending
  /-- the server answers -/
  | valid
  /-- nothing more is scripted: every attempt failed -/
  | gaveUp
  /-- the first datagram that comes back is `datagram`, which is not a reply of the unit's kind -/
  | malformed (datagram : Bytes)
  deriving Repr, DecidableEq

structure UnitPlan where
  fails : List Bool
  ending : Ending
  deriving Repr, DecidableEq

structure Plan where
  info : UnitPlan
  rules : UnitPlan
  players : UnitPlan
  deriving Repr, DecidableEq

/-- a silence per lost reply -/
def failDeliveries (fails : List Bool) : List Delivery := fails.flatMap fun f => if f then [] else [Delivery.silence]

/-- what arrives for one unit whose valid answer is the datagrams `dgs`.  `listens`: after a valid answer the client
keeps listening for further datagrams until nothing arrives for a timeout. -/
def unitScript (u : UnitPlan) (dgs : List Bytes) (listens : Bool) : List Delivery :=
  failDeliveries u.fails ++
  (match u.ending with
   | .valid => dgs.map .data ++ (if listens then [.silence] else [])
   | .gaveUp => []
   | .malformed m => [.data m])

/-- one flag per send: each attempt sends the unit's request once -/
def unitFaults (u : UnitPlan) : List Bool :=
  u.fails ++ (match u.ending with | .gaveUp => [] | _ => [false])

/-- the requests of one unit, with their failed flags -/
def unitSends (kind : Nat) (u : UnitPlan) : List (Bytes × Bool) :=
  u.fails.map (fun f => (request kind, f)) ++ (match u.ending with | .gaveUp => [] | _ => [(request kind, false)])

def UnitPlan.attempts (u : UnitPlan) : Nat := u.fails.length + (match u.ending with | .gaveUp => 0 | _ => 1)

/-- a datagram that is not a reply of kind `kind`: shorter than the 5 header bytes, or with another kind byte -/
def malformedAt (kind : Nat) (m : Bytes) : Bool := (m.drop 4).head? != some (UInt8.ofNat kind)

/-- the error it is rejected with -/
def malformedError (m : Bytes) : ErrKind := if m.length == 4 then .packetUnderflow else .packetBad

/-- how the unit fails, if it does -/
def UnitPlan.error (u : UnitPlan) : Option ErrKind :=
  match u.ending with
  | .valid => none
  | .gaveUp => some (lastError attemptError u.fails)
  | .malformed m => some (malformedError m)

/-- C10's domain for one unit: an answered unit had at most `retries` timeout-class failures before, a unit that is
given up exactly `retries + 1`; a malformed first datagram is one the header check rejects (within the buffer) -/
def wfUnit (retries kind : Nat) (u : UnitPlan) : Bool :=
  match u.ending with
  | .valid => u.fails.length ≤ retries
  | .gaveUp => u.fails.length == retries + 1
  | .malformed m => u.fails.length ≤ retries && malformedAt kind m && m.length ≤ PACKET_SIZE

/-- the server info unit is answered: the query goes on to the sections -/
def infoOk (plan : Plan) : Bool := plan.info.ending == .valid

/-- the rules section ends the query (required and failed) -/
def rulesStops (cfg : Config) (plan : Plan) : Bool :=
  cfg.gather.mutatorsAndRules == .enforce && plan.rules.ending != .valid

def rulesReached (cfg : Config) (plan : Plan) : Bool := infoOk plan && cfg.gather.mutatorsAndRules != .skip

def playersReached (cfg : Config) (plan : Plan) : Bool :=
  infoOk plan && !rulesStops cfg plan && cfg.gather.players != .skip

/-- everything that arrives at the client's socket under the plan, in order -/
def faultyScript (cfg : Config) (st : State) (plan : Plan) : List Delivery :=
  unitScript plan.info [infoDatagram st] false ++
  (if rulesReached cfg plan then unitScript plan.rules (rulesDatagrams cfg st) true else []) ++
  (if playersReached cfg plan then unitScript plan.players (playersDatagrams cfg st) false else [])

/-- one flag per send of the query -/
def faultyFaults (cfg : Config) (plan : Plan) : List Bool :=
  unitFaults plan.info ++
  (if rulesReached cfg plan then unitFaults plan.rules else []) ++
  (if playersReached cfg plan then unitFaults plan.players else [])

/-- every datagram the client sends, with its failed flag -/
def faultySends (cfg : Config) (plan : Plan) : List (Bytes × Bool) :=
  unitSends 0 plan.info ++
  (if rulesReached cfg plan then unitSends 1 plan.rules else []) ++
  (if playersReached cfg plan then unitSends 2 plan.players else [])

/-- C10's domain for the retry count: every unit that is reached is in its domain -/
def wfPlan (cfg : Config) (plan : Plan) : Bool :=
  wfUnit cfg.retries 0 plan.info &&
  (!rulesReached cfg plan || wfUnit cfg.retries 1 plan.rules) &&
  (!playersReached cfg plan || wfUnit cfg.retries 2 plan.players)

/-- C11's table with the unit's own error: what a section contributes -/
def sectionRes {α : Type} (t : Toggle) (u : UnitPlan) (v : α) : Res (Option α) :=
  match t, u.error with
  | .skip, _ => .ok none
  | _, none => .ok (some v)
  | .try_, some _ => .ok none
  | .enforce, some k => .err k

/-- the outcome C10 prescribes for the query -/
def faultyExpected (cfg : Config) (st : State) (plan : Plan) : Res Response :=
  match plan.info.error with
  | some k => .err k
  | none => do
    let mr ← sectionRes cfg.gather.mutatorsAndRules plan.rules (expectedMR st)
    let mr := mr.getD .empty
    let players ← sectionRes cfg.gather.players plan.players (expectedPlayers st)
    pure ⟨⟨st.serverId, st.ip.text, st.gamePort, st.queryPort, st.name.text, st.map.text, st.gameType.text,
            st.numPlayers, st.maxPlayers, expectedPassword mr⟩, mr, players.getD .empty⟩

/-- the configuration in which both sections are answered (the fault-free exchange of `Spec.script`) -/
def Config.answered (cfg : Config) : Config := { cfg with rulesOutcome := .valid, playersOutcome := .valid }

/-- after the last players datagram the client is still listening (the announced number has not been reached): what
follows the plan's script must then begin with a silence (or be nothing) -/
def stillListening (cfg : Config) (st : State) (plan : Plan) : Bool :=
  playersReached cfg plan && plan.players.ending == .valid && st.players.length < st.numPlayers

/-- nothing, or a silence first -/
def quiet : List Delivery → Bool
  | [] => true
  | .silence :: _ => true
  | .data _ :: _ => false

/-! ### the three units by name -/

inductive Section | info | rules | players
  deriving Repr, DecidableEq

/-- the kind byte of the unit's request -/
def Section.kind : Section → Nat
  | .info => 0
  | .rules => 1
  | .players => 2

def Plan.unit (p : Plan) : Section → UnitPlan
  | .info => p.info
  | .rules => p.rules
  | .players => p.players

/-- the toggle a unit is gathered under (the server info is always required) -/
def toggleOf (cfg : Config) : Section → Toggle
  | .info => .enforce
  | .rules => cfg.gather.mutatorsAndRules
  | .players => cfg.gather.players

/-- the query gets as far as asking for this unit -/
def reached (cfg : Config) (plan : Plan) : Section → Bool
  | .info => true
  | .rules => rulesReached cfg plan
  | .players => playersReached cfg plan

/-- attempts of a unit seen on the wire = requests of its kind -/
def attemptsOf (sec : Section) (sent : List (Bytes × Bool)) : Nat :=
  (sent.filter fun p => p.1 == request sec.kind).length

end Gd.Unreal2.Spec
