import GdVerif.Spec.Faults
/-
  SPEC vocabulary for C10 on units made of SEVERAL requests and ONE read (the Minecraft clients: Java sends handshake,
  status request and ping before it reads; Bedrock and the legacy clients send one ping), on one socket — UDP or TCP.

  An attempt ends in a timeout-class failure when one of its requests cannot be sent (the earlier ones went out), or
  when all went out and the read times out (on TCP: the stream stays open and silent).  A plan lists such attempts and
  then the datagram / stream content that answers (the server's reply, or a malformed one), or nothing.
-/
namespace Gd.Faults

/-- one attempt that ends in a timeout-class failure -/
structure AttemptN where
  /-- requests of the attempt that went out -/
  sentOk : Nat
  /-- `true`: the next request could not be sent; `false`: all went out and the read timed out -/
  sendFault : Bool
  deriving Repr, DecidableEq

/-- for a unit of `n` requests: a failed send is one of them, a lost reply comes after all of them -/
def AttemptN.wf (n : Nat) (a : AttemptN) : Bool := if a.sendFault then a.sentOk < n else a.sentOk == n

def AttemptN.deliveries (a : AttemptN) : List Delivery := if a.sendFault then [] else [.silence]

/-- one flag per send of the attempt -/
def AttemptN.faults (a : AttemptN) : List Bool := List.replicate a.sentOk false ++ (if a.sendFault then [true] else [])

def AttemptN.error (a : AttemptN) : ErrKind := attemptError a.sendFault

/-- the requests of the attempt that reached `send`, the last one failed when `sendFault` -/
def AttemptN.sends (reqs : List Bytes) (a : AttemptN) : List (Bytes × Bool) :=
  flagLast (reqs.take (a.sentOk + (if a.sendFault then 1 else 0))) a.sendFault

structure PlanN where
  fails : List AttemptN
  answer : Option Bytes
  deriving Repr, DecidableEq

def PlanN.deliveries (p : PlanN) : List Delivery :=
  p.fails.flatMap AttemptN.deliveries ++ (match p.answer with | some d => [.data d] | none => [])

/-- `n` = requests per attempt -/
def PlanN.faults (n : Nat) (p : PlanN) : List Bool :=
  p.fails.flatMap AttemptN.faults ++ (match p.answer with | some _ => List.replicate n false | none => [])

def PlanN.sends (reqs : List Bytes) (p : PlanN) : List (Bytes × Bool) :=
  p.fails.flatMap (AttemptN.sends reqs) ++ (match p.answer with | some _ => reqs.map (·, false) | none => [])

/-- C10's domain for a retry count; `fits d`: the read returns `d` whole (UDP: within the buffer; TCP: always) -/
def PlanN.wf (retries n : Nat) (fits : Bytes → Bool) (p : PlanN) : Bool :=
  p.fails.all (AttemptN.wf n) &&
  (match p.answer with
   | some d => p.fails.length ≤ retries && fits d
   | none => p.fails.length == retries + 1)

def PlanN.outcome {α : Type} (check : Bytes → Res α) (p : PlanN) : Res α :=
  match p.answer with
  | some d => check d
  | none => .err (lastError AttemptN.error p.fails)

def PlanN.attempts (p : PlanN) : Nat := p.fails.length + (if p.answer.isSome then 1 else 0)

/-- attempts seen on the wire: how often the FIRST request of the exchange reached `send` -/
def firstRequests (reqs : List Bytes) (sent : List (Bytes × Bool)) : Nat :=
  match reqs with
  | [] => 0
  | r0 :: _ => (sent.filter fun p => p.1 == r0).length

end Gd.Faults
