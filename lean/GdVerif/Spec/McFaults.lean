import GdVerif.Spec.Minecraft
import GdVerif.Spec.FaultsN
/-
  SPEC for C10 on whole Minecraft queries (Bedrock, Java, the three legacy clients): each client has ONE retried unit
  on ONE socket — all its requests, then one read (`Spec/FaultsN.lean`: `PlanN`).  Bedrock speaks UDP (a silence = no
  datagram within the timeout); Java and the legacy clients speak TCP: a silent attempt is a read that times out on the
  open stream, a stream the peer has closed is an empty read, which is a malformed reply and is not retried.

  Here: the families of malformed replies of the `…_malformed_not_retried` theorems, and the error each is rejected with.
-/
namespace Gd.Mc.Spec
open Gd Gd.Mc

/-- Bedrock: a datagram that is not an unconnected pong — empty, or not starting with `1C` -/
def malformedBedrock (m : Bytes) : Bool := m.head? != some 0x1c

def malformedBedrockError (m : Bytes) : ErrKind := if m.isEmpty then .packetUnderflow else .packetBad

/-- legacy: a stream that is not a kick packet — it does not start with `FF`, or ends inside the 3-byte header -/
def malformedLegacy (m : Bytes) : Bool := m.head? != some 0xFF || m.length < 3

def malformedLegacyError : Bytes → ErrKind
  | [] => .packetUnderflow
  | b :: _ => if b != 0xFF then .protocolFormat else .packetUnderflow

/-- Java: a stream that ends inside the frame-length VarInt — at most four bytes, each with the continuation bit (in
particular the empty stream: the peer closed the connection without writing) -/
def malformedJava (m : Bytes) : Bool := m.length ≤ 4 && m.all (fun b => b.toNat &&& 0x80 != 0)

end Gd.Mc.Spec
