import GdVerif.Proto.Gs3
import GdVerif.Spec.Valve
/-
  SPEC for C04 (GameSpy 3), C08/C09/C10 (its exchange): what a GameSpy 3 server sends for an abstract
  server state, and what a user is entitled to get.  Reference reading: node-gamedig `gamespy3.js`.

  Exchange:   client  FE FD 09 <session id>                          (handshake)
              server  09 <session id> <challenge, decimal text> 00
              client  FE FD 00 <session id> [challenge, i32 BE] FF FF FF 01    (no challenge bytes for "0")
              server  00 <session id> "splitnum" 00 <id | 80 if last> <byte> <payload>      (1..n packets)
  Payload of packet 0: `key 00 value 00 … 00`, then field sections; further packets: field sections.
  Field section: optional marker bytes (0, 1, 2), `<field>_ 00` (player table) or `<field>_t 00` (team
  table), an offset byte (row of the first value), the values `v 00 …`, and a closing `00`.
-/
namespace Gd.Gs3.Spec
open Gd Gd.Gs3

def cstr (s : Bytes) : Bytes := s ++ [0]

/-- the server: its variables (all of them, in the order sent), the player and the team table, and
optionally the `pid` column some servers add to the player table -/
structure State where
  vars : Vars
  players : List Player
  teams : List Team
  pids : Option (List Bytes)
  deriving Repr

/-- values `offset … offset+count-1` of one column, sent as one field section -/
structure Slice where
  markers : Bytes
  team : Bool
  field : Bytes
  offset : Nat
  count : Nat
  deriving Repr

/-- how this reply is put on the wire -/
structure Config where
  challenge : Int
  /-- the sections of each packet (first = the packet that also carries the variables) -/
  layout : List (List Slice)
  /-- the byte after the packet id, per packet (not understood by any reader) -/
  unknown : List Nat
  deriving Repr

def playerColumn (st : State) (field : Bytes) : Option (List Bytes) :=
  if field == asciiBytes "player" then some (st.players.map (·.name))
  else if field == asciiBytes "score" then some (st.players.map fun p => intDec p.score)
  else if field == asciiBytes "ping" then some (st.players.map fun p => natDec p.ping)
  else if field == asciiBytes "team" then some (st.players.map fun p => natDec p.team)
  else if field == asciiBytes "deaths" then some (st.players.map fun p => natDec p.deaths)
  else if field == asciiBytes "skill" then some (st.players.map fun p => natDec p.skill)
  else if field == asciiBytes "pid" then st.pids
  else none

def teamColumn (st : State) (field : Bytes) : Option (List Bytes) :=
  if field == asciiBytes "team" then some (st.teams.map (·.name))
  else if field == asciiBytes "score" then some (st.teams.map fun t => intDec t.score)
  else none

def column (st : State) (team : Bool) (field : Bytes) : Option (List Bytes) :=
  if team then teamColumn st field else playerColumn st field

/-- the values a slice carries -/
def sliceValues (st : State) (sl : Slice) : List Bytes :=
  (((column st sl.team sl.field).getD []).drop sl.offset).take sl.count

def fieldId (sl : Slice) : Bytes := sl.field ++ [0x5F] ++ (if sl.team then [0x74] else [])

def encSlice (st : State) (sl : Slice) : Bytes :=
  sl.markers ++ cstr (fieldId sl) ++ [UInt8.ofNat sl.offset] ++ ((sliceValues st sl).map cstr).flatten ++ [0]

def encSlices (st : State) (ss : List Slice) : Bytes := (ss.map (encSlice st)).flatten

def encVars (vars : Vars) : Bytes := (vars.map fun p => cstr p.1 ++ cstr p.2).flatten ++ [0]

/-- payload of each packet -/
def payloads (cfg : Config) (st : State) : List Bytes :=
  match cfg.layout with
  | [] => [encVars st.vars]
  | first :: rest => (encVars st.vars ++ encSlices st first) :: rest.map (encSlices st)

def sessionId : Bytes := [0, 0, 0, 1]

def dataPacket (id : Nat) (last : Bool) (unknown : Nat) (payload : Bytes) : Bytes :=
  [0] ++ sessionId ++ cstr (asciiBytes "splitnum") ++ [UInt8.ofNat (id + (if last then 0x80 else 0))] ++
  [UInt8.ofNat unknown] ++ payload

def handshakeReply (c : Int) : Bytes := [9] ++ sessionId ++ cstr (intDec c)

def packetsFrom (unknown : List Nat) (total : Nat) : Nat → List Bytes → List Bytes
  | _, [] => []
  | i, p :: r => dataPacket i (i + 1 == total) (unknown.getD i 0) p :: packetsFrom unknown total (i + 1) r

/-- the data packets in order of their ids -/
def dataPackets (cfg : Config) (st : State) : List Bytes :=
  let ps := payloads cfg st
  packetsFrom cfg.unknown ps.length 0 ps

/-- everything the server sends, in order, when nothing is lost -/
def script (cfg : Config) (st : State) : List Bytes := handshakeReply cfg.challenge :: dataPackets cfg st

/-! ### what the user is entitled to -/

def typedKeys : List Bytes :=
  [asciiBytes "hostname", asciiBytes "mapname", asciiBytes "password", asciiBytes "gametype", asciiBytes "gamever",
   asciiBytes "maxplayers", asciiBytes "minplayers", asciiBytes "numplayers", asciiBytes "tournament"]

def var (st : State) (k : String) : Option Bytes := mapGet st.vars (asciiBytes k)

/-- a flag variable: `true`/`false` in any case, or a number (non-zero = set) -/
def flagOf (v : Bytes) : Bool :=
  let l := asciiLower v
  if l == asciiBytes "true" then true
  else if l == asciiBytes "false" then false
  else (parseUnsigned 8 l).getD 0 != 0

def numOf (bits : Nat) (v : Option Bytes) : Nat := ((v.bind (parseUnsigned bits))).getD 0

/-- the response: typed fields from the variables of the same meaning, the player count the larger of
the reported and the listed one, every player and team, and all other variables as unused entries -/
def expected (st : State) : Response :=
  { name := (var st "hostname").getD []
    map := (var st "mapname").getD []
    hasPassword := flagOf ((var st "password").getD [])
    gameMode := (var st "gametype").getD []
    gameVersion := (var st "gamever").getD []
    playersMaximum := numOf 32 (var st "maxplayers")
    playersOnline := max (numOf 64 (var st "numplayers")) st.players.length
    playersMinimum := (var st "minplayers").map fun v => numOf 8 (some v)
    players := st.players
    teams := st.teams
    tournament := match var st "tournament" with
      | none => true
      | some v => flagOf v
    unusedEntries := st.vars.filter fun p => !typedKeys.contains p.1 }

/-- what `query_vars` must return: exactly the pairs sent -/
def expectedVars (st : State) : Vars := st.vars

/-! ### requests (C09) -/

def handshakeRequest : Bytes := [0xFE, 0xFD, 0x09] ++ sessionId

/-- the challenge goes back as a big-endian i32; the text `0` means "no challenge": nothing is added -/
def dataRequest (c : Int) : Bytes :=
  [0xFE, 0xFD, 0x00] ++ sessionId ++ (if c = 0 then [] else natBE 4 (ofSigned 32 c)) ++ [0xFF, 0xFF, 0xFF, 0x01]

def requests (cfg : Config) : List Bytes := [handshakeRequest, dataRequest cfg.challenge]

/-! ### well-formedness (the specification's domain) -/

def okStr (s : Bytes) : Bool := !s.contains 0 && validUtf8 s
/-- a value inside a field section: an empty value would close the section -/
def okItem (s : Bytes) : Bool := okStr s && !s.isEmpty

def isFlag (v : Bytes) : Bool :=
  let l := asciiLower v
  l == asciiBytes "true" || l == asciiBytes "false" || (parseUnsigned 8 l).isSome

def isBoolText (v : Bytes) : Bool :=
  let l := asciiLower v
  l == asciiBytes "true" || l == asciiBytes "false"

def wfVars (st : State) : Bool :=
  st.vars.all (fun p => okItem p.1 && okStr p.2) && Valve.Spec.distinctKeys st.vars &&
  (var st "hostname").isSome && (var st "mapname").isSome && (var st "gametype").isSome && (var st "gamever").isSome &&
  ((var st "password").any isFlag) &&
  ((var st "maxplayers").any fun v => (parseUnsigned 32 v).isSome) &&
  ((var st "minplayers").all fun v => (parseUnsigned 8 v).isSome) &&
  ((var st "numplayers").all fun v => (parseUnsigned 32 v).isSome) &&
  ((var st "tournament").all isBoolText)

def wfPlayer (p : Player) : Bool :=
  okItem p.name && (-(2 ^ 31 : Int) ≤ p.score) && (p.score < 2 ^ 31) && p.ping < 2 ^ 16 && p.team < 2 ^ 8 &&
  p.deaths < 2 ^ 32 && p.skill < 2 ^ 32

def wfTeam (t : Team) : Bool := okItem t.name && (-(2 ^ 31 : Int) ≤ t.score) && (t.score < 2 ^ 31)

def wfSlice (st : State) (sl : Slice) : Bool :=
  sl.markers.all (· < 3) && sl.offset < 256 &&
  match column st sl.team sl.field with
  | none => false
  | some col => sl.offset + sl.count ≤ col.length

def playerFields : List Bytes :=
  [asciiBytes "player", asciiBytes "score", asciiBytes "ping", asciiBytes "team", asciiBytes "deaths", asciiBytes "skill"]
def teamFields : List Bytes := [asciiBytes "team", asciiBytes "score"]

def covers (team : Bool) (field : Bytes) (i : Nat) (sl : Slice) : Bool :=
  sl.team == team && sl.field == field && sl.offset ≤ i && i < sl.offset + sl.count

/-- every value of every column of the response is sent in some slice -/
def covered (st : State) (slices : List Slice) : Bool :=
  (playerFields.all fun f => (List.range st.players.length).all fun i => slices.any (covers false f i)) &&
  (teamFields.all fun f => (List.range st.teams.length).all fun i => slices.any (covers true f i))

def wf (cfg : Config) (st : State) : Bool :=
  wfVars st && st.players.all wfPlayer && st.teams.all wfTeam && st.players.length < 2 ^ 32 &&
  (st.pids.all fun l => l.length == st.players.length && l.all okItem) &&
  cfg.layout.flatten.all (wfSlice st) && covered st cfg.layout.flatten &&
  !cfg.layout.isEmpty && (cfg.layout.drop 1).all (fun ss => !ss.isEmpty) && cfg.layout.length ≤ 128 &&
  (-(2 ^ 31 : Int) ≤ cfg.challenge) && (cfg.challenge < 2 ^ 31) &&
  (dataPackets cfg st).all (fun d => d.length ≤ PACKET_SIZE)

/-! ### field sections the client has no place for

GameSpy 3 servers also send columns that are not part of the response (`kills_`, `time_on_`, `clan_`,
`AIBot_`, `honor_t` …).  They travel exactly like the typed columns: marker bytes, the field id, the
row of the first value, the values, a closing `00`, anywhere among the other sections of a packet.
A reader of the format leaves them out; everything else of the reply is unchanged. -/

/-- one field section of a column that is not part of the response -/
structure Extra where
  markers : Bytes
  /-- the field id as sent, suffix (`_` / `_t`) included -/
  name : Bytes
  offset : Nat
  values : List Bytes
  deriving Repr

/-- a section of a packet: a slice of a column of the response, or an extra section -/
inductive Section where
  | slice (sl : Slice)
  | extra (e : Extra)
  deriving Repr

def encExtra (e : Extra) : Bytes :=
  e.markers ++ cstr e.name ++ [UInt8.ofNat e.offset] ++ (e.values.map cstr).flatten ++ [0]

def encSection (st : State) : Section → Bytes
  | .slice sl => encSlice st sl
  | .extra e => encExtra e

def encSections (st : State) (ss : List Section) : Bytes := (ss.map (encSection st)).flatten

/-- the slices among the sections (order kept) -/
def slicesOf : List Section → List Slice
  | [] => []
  | .slice sl :: r => sl :: slicesOf r
  | .extra _ :: r => slicesOf r

/-- the extra sections among the sections -/
def extrasOf : List Section → List Extra
  | [] => []
  | .slice _ :: r => extrasOf r
  | .extra e :: r => e :: extrasOf r

/-- how a reply with extra sections is put on the wire: `Config` with sections for slices -/
structure ConfigX where
  challenge : Int
  layout : List (List Section)
  unknown : List Nat
  deriving Repr

/-- the same reply without its extra sections -/
def ConfigX.base (cfg : ConfigX) : Config := ⟨cfg.challenge, cfg.layout.map slicesOf, cfg.unknown⟩

/-- a reply without extra sections, as a `ConfigX` -/
def Config.toX (cfg : Config) : ConfigX := ⟨cfg.challenge, cfg.layout.map (·.map .slice), cfg.unknown⟩

def payloadsX (cfg : ConfigX) (st : State) : List Bytes :=
  match cfg.layout with
  | [] => [encVars st.vars]
  | first :: rest => (encVars st.vars ++ encSections st first) :: rest.map (encSections st)

def dataPacketsX (cfg : ConfigX) (st : State) : List Bytes :=
  let ps := payloadsX cfg st
  packetsFrom cfg.unknown ps.length 0 ps

def scriptX (cfg : ConfigX) (st : State) : List Bytes := handshakeReply cfg.challenge :: dataPacketsX cfg st

def requestsX (cfg : ConfigX) : List Bytes := [handshakeRequest, dataRequest cfg.challenge]

/-- the names of the typed columns (player table incl. `pid`, team table) -/
def typedFields : List Bytes := playerFields ++ [asciiBytes "pid"]

/-- what stands before the first `_` of a field id -/
def firstSegment (name : Bytes) : Bytes := name.takeWhile (· != 0x5F)

/-- an extra section that the format allows and that is not one of the typed columns: marker bytes
below 3; the field id a non-empty text that does not start with a marker byte and whose first
`_`-segment is none of the typed names (its suffix is free); the row offset a byte; every value a
non-empty text (an empty one would close the section).  Nothing is asked of what the values say:
`score`, `team_rocket`, `ping_` are values like any other. -/
def wfExtra (e : Extra) : Bool :=
  e.markers.all (· < 3) && okItem e.name && e.name.head?.all (fun b => !(b < 3)) &&
  !typedFields.contains (firstSegment e.name) && e.offset < 256 && e.values.all okItem

def wfSection (st : State) : Section → Bool
  | .slice sl => wfSlice st sl
  | .extra e => wfExtra e

/-- the domain with extra sections: `wf` for the slices among the sections (each typed value still
sent by some slice), every extra section allowed, and the packets as they are now (each later packet
carries at least one section of either kind, each datagram fits the client's buffer) -/
def wfX (cfg : ConfigX) (st : State) : Bool :=
  wfVars st && st.players.all wfPlayer && st.teams.all wfTeam && st.players.length < 2 ^ 32 &&
  (st.pids.all fun l => l.length == st.players.length && l.all okItem) &&
  cfg.layout.flatten.all (wfSection st) && covered st (slicesOf cfg.layout.flatten) &&
  !cfg.layout.isEmpty && (cfg.layout.drop 1).all (fun ss => !ss.isEmpty) && cfg.layout.length ≤ 128 &&
  (-(2 ^ 31 : Int) ≤ cfg.challenge) && (cfg.challenge < 2 ^ 31) &&
  (dataPacketsX cfg st).all (fun d => d.length ≤ PACKET_SIZE)

/-! ### value lists that continue in the next packet

When a reply does not fit one packet, real servers cut a field section at the packet boundary: the
packet simply ENDS inside the value list — after a value, with no closing empty value — and the next
packet continues the same field by repeating `<field id> 00 <offset byte>` with the row of the first
value it carries.  A `Slice` / `Extra` already is "the values `offset …` of one column under its field id
and offset", so the continuation is a section like any other; what is new on the wire is the section
WITHOUT its closing `00` at the end of a packet.  `ConfigC` = `ConfigX` plus, per packet, whether it ends
inside the value list of its last section.  `CutSection` / `cutLayout` below give the same thing from
the other side: whole sections, each with the list of its cut points. -/

/-- a section whose packet ends after its last value: no closing empty value -/
def encOpen (st : State) : Section → Bytes
  | .slice sl => sl.markers ++ cstr (fieldId sl) ++ [UInt8.ofNat sl.offset] ++ ((sliceValues st sl).map cstr).flatten
  | .extra e => e.markers ++ cstr e.name ++ [UInt8.ofNat e.offset] ++ (e.values.map cstr).flatten

/-- the sections of a packet that ends inside the value list of its last section -/
def encSectionsCut (st : State) : List Section → Bytes
  | [] => []
  | [s] => encOpen st s
  | s :: r => encSection st s ++ encSectionsCut st r

/-- how a reply whose packets may end inside a value list is put on the wire -/
structure ConfigC where
  challenge : Int
  layout : List (List Section)
  unknown : List Nat
  /-- per packet: it ends inside the value list of its last section (absent = no) -/
  cut : List Bool
  deriving Repr

/-- the same sections with every value list closed in its packet -/
def ConfigC.closed (cfg : ConfigC) : ConfigX := ⟨cfg.challenge, cfg.layout, cfg.unknown⟩

/-- a reply whose packets close all their sections, as a `ConfigC` -/
def ConfigX.toC (cfg : ConfigX) : ConfigC := ⟨cfg.challenge, cfg.layout, cfg.unknown, []⟩

def encPacketSections (st : State) (cut : Bool) (ss : List Section) : Bytes :=
  if cut then encSectionsCut st ss else encSections st ss

/-- the section bytes of packets `i, i+1, …` -/
def sectionBytesFrom (st : State) (cut : List Bool) : Nat → List (List Section) → List Bytes
  | _, [] => []
  | i, ss :: r => encPacketSections st (cut.getD i false) ss :: sectionBytesFrom st cut (i + 1) r

def payloadsC (cfg : ConfigC) (st : State) : List Bytes :=
  match sectionBytesFrom st cfg.cut 0 cfg.layout with
  | [] => [encVars st.vars]
  | first :: rest => (encVars st.vars ++ first) :: rest

def dataPacketsC (cfg : ConfigC) (st : State) : List Bytes :=
  let ps := payloadsC cfg st
  packetsFrom cfg.unknown ps.length 0 ps

def scriptC (cfg : ConfigC) (st : State) : List Bytes := handshakeReply cfg.challenge :: dataPacketsC cfg st

def requestsC (cfg : ConfigC) : List Bytes := [handshakeRequest, dataRequest cfg.challenge]

/-- the domain: `wfX` with the packets as they are now (a packet that ends inside a value list is one
byte shorter than with the list closed; it is not empty: it carries at least the field id and the
offset of its last section) -/
def wfC (cfg : ConfigC) (st : State) : Bool :=
  wfVars st && st.players.all wfPlayer && st.teams.all wfTeam && st.players.length < 2 ^ 32 &&
  (st.pids.all fun l => l.length == st.players.length && l.all okItem) &&
  cfg.layout.flatten.all (wfSection st) && covered st (slicesOf cfg.layout.flatten) &&
  !cfg.layout.isEmpty && (cfg.layout.drop 1).all (fun ss => !ss.isEmpty) && cfg.layout.length ≤ 128 &&
  (-(2 ^ 31 : Int) ≤ cfg.challenge) && (cfg.challenge < 2 ^ 31) &&
  (dataPacketsC cfg st).all (fun d => d.length ≤ PACKET_SIZE)

/-! what real servers do on top of `wfC` (not needed by a reader, `C04_gs3_query_cut` does not ask for
it): a packet ends inside a value list only after at least one value, and the next packet starts with
the continuation — the same field id, the offset of the first value not yet sent -/

def sectionId : Section → Bytes
  | .slice sl => fieldId sl
  | .extra e => e.name

def sectionOffset : Section → Nat
  | .slice sl => sl.offset
  | .extra e => e.offset

def sectionCount : Section → Nat
  | .slice sl => sl.count
  | .extra e => e.values.length

def continuedFrom (cut : List Bool) : Nat → List (List Section) → Bool
  | _, [] => true
  | i, ss :: r =>
    (!(cut.getD i false) ||
      match ss.getLast?, r.head?.bind List.head? with
      | some s, some s' => 0 < sectionCount s && sectionId s' == sectionId s && sectionOffset s' == sectionOffset s + sectionCount s
      | _, _ => false) && continuedFrom cut (i + 1) r

/-- every packet that ends inside a value list is continued by the next one -/
def continued (cfg : ConfigC) : Bool := continuedFrom cfg.cut 0 cfg.layout

/-! the same from the side of the whole sections: a section and its cut points -/

/-- values `a … a+n-1` of a section under its field id, with the offset of the first of them -/
def Section.part : Section → Nat → Nat → Section
  | .slice sl, a, n => .slice { sl with offset := sl.offset + a, count := n }
  | .extra e, a, n => .extra { e with offset := e.offset + a, values := (e.values.drop a).take n }

/-- a section and the numbers of values after which a packet of the reply ends (increasing, each
inside the section: `0 < c < count`) -/
structure CutSection where
  sec : Section
  cuts : List Nat
  deriving Repr

/-- the pieces of a section from value `a` on: all but the last end their packet -/
def cutPieces (s : Section) : Nat → List Nat → List Section
  | a, [] => [s.part a (sectionCount s - a)]
  | a, c :: r => s.part a (c - a) :: cutPieces s c r

/-- the packets of a run of sections that are sent one after the other: a new packet after every cut
point.  `cur` = the sections of the packet being filled. -/
def cutRun (cur : List Section) : List CutSection → List (List Section × Bool)
  | [] => [(cur, false)]
  | cs :: r =>
    match cutPieces cs.sec 0 cs.cuts with
    | [] => cutRun cur r
    | [p] => cutRun (cur ++ [p]) r
    | p :: q :: more =>
      (cur ++ [p], true) :: ((q :: more).dropLast.map fun x => ([x], true)) ++ cutRun [(q :: more).getLast (List.cons_ne_nil q more)] r

/-- a reply given as runs of whole sections with cut points (a packet boundary between two runs falls
between two sections, as in `ConfigX`) -/
def cutLayout (challenge : Int) (runs : List (List CutSection)) (unknown : List Nat) : ConfigC :=
  let packets := (runs.map (cutRun [])).flatten
  ⟨challenge, packets.map (·.1), unknown, packets.map (·.2)⟩

end Gd.Gs3.Spec
