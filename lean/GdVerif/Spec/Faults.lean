import GdVerif.Net
/-
  SPEC vocabulary shared by the fault-injection scripts of the protocol families (C10 on whole queries).
-/
namespace Gd.Faults

/-- all of `ds` go out, the last one with the flag `f` (`true` = that send fails) -/
def flagLast : List Bytes → Bool → List (Bytes × Bool)
  | [], _ => []
  | [d], f => [(d, f)]
  | d :: r, f => (d, false) :: flagLast r f

/-- the error of the last of a list of failed attempts (`err a` = the timeout-class error attempt `a` ends with) -/
def lastError {A : Type} (err : A → ErrKind) : List A → ErrKind
  | [] => .packetReceive
  | [a] => err a
  | _ :: r => lastError err r

end Gd.Faults
