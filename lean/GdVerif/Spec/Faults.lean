import GdVerif.Net
/-
  SPEC vocabulary shared by the fault-injection scripts of the protocol families (C10 on whole queries).
-/
namespace Gd.Faults

/-- all of `ds` go out, the last one with the flag `f` (`true` = that send fails) -/
def flagLast : List Bytes → Bool → List (Bytes × Bool)
  | [], _ => []
  | [d], f => [(d, f)]
  | d :: r, f => (d, false) :: flagLast r f

/-- the error of the last of a list of failed attempts (`err a` = the timeout-class error attempt `a` ends with) -/
def lastError {A : Type} (err : A → ErrKind) : List A → ErrKind
  | [] => .packetReceive
  | [a] => err a
  | _ :: r => lastError err r

/-- the error of a timeout-class failure: could not send / nothing received -/
def attemptError (sendFault : Bool) : ErrKind := if sendFault then .packetSend else .packetReceive

/-! ### replies of several datagrams, partly delivered -/

/-- `got` are some of the datagrams `pool`, each taken at most once, in any order — and NOT all of them -/
def selects : List Bytes → List Bytes → Bool
  | [], pool => !pool.isEmpty
  | d :: r, pool => pool.contains d && selects r (pool.erase d)

/-- what a failed attempt still receives of a reply made of the datagrams `pool`: nothing, or an incomplete selection
of them (a reply of ONE datagram therefore admits nothing but `[]`) -/
def partOf (got pool : List Bytes) : Bool := got.isEmpty || selects got pool

/-! ### units made of ONE exchange (request, one datagram back): Quake, GameSpy 2

A plan: the attempts that end in a timeout-class failure — `false`: the request goes out and nothing comes back,
`true`: the request cannot be sent — and then the datagram that ends the unit (the server's reply, or a malformed one), or
nothing (the client has given up). -/

structure Plan1 where
  fails : List Bool
  answer : Option Bytes
  deriving Repr, DecidableEq

/-- what the peer delivers: a silence per lost reply, then the answer -/
def Plan1.deliveries (p : Plan1) : List Delivery :=
  (p.fails.flatMap fun f => if f then [] else [Delivery.silence]) ++
  (match p.answer with | some d => [.data d] | none => [])

/-- one flag per send: each attempt sends the request once -/
def Plan1.faults (p : Plan1) : List Bool :=
  p.fails ++ (match p.answer with | some _ => [false] | none => [])

/-- every datagram the client sends, with its failed flag: the request, once per attempt -/
def Plan1.sends (req : Bytes) (p : Plan1) : List (Bytes × Bool) :=
  p.fails.map (fun f => (req, f)) ++ (match p.answer with | some _ => [(req, false)] | none => [])

/-- C10's domain for a retry count (`size` = the client's receive buffer): an answered unit had at most `retries`
timeout-class failures before, a unit that is given up exactly `retries + 1` -/
def Plan1.wf (retries size : Nat) (p : Plan1) : Bool :=
  match p.answer with
  | some d => p.fails.length ≤ retries && d.length ≤ size
  | none => p.fails.length == retries + 1

/-- the unit's outcome: what the client makes of the answer (`check`), or the last failed attempt's error -/
def Plan1.outcome {α : Type} (check : Bytes → Res α) (p : Plan1) : Res α :=
  match p.answer with
  | some d => check d
  | none => .err (lastError attemptError p.fails)

def Plan1.attempts (p : Plan1) : Nat := p.fails.length + (if p.answer.isSome then 1 else 0)

end Gd.Faults
