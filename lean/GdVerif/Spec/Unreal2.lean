import GdVerif.Proto.Unreal2
/-
  SPEC for C06: what a server speaking the Unreal 2 query format sends for an abstract server state,
  and what response a user is entitled to.  Written from the format as node-gamedig's
  `protocols/unreal2.js` reads it (request `79 00 00 00 <kind>`; every reply = 4 header bytes, the kind
  byte, the body; strings = length byte + text), not from the Rust.

  Strings.  Length byte `< 0x80`: that many Latin-1 bytes, the terminating NUL included in the
  count.  Length byte `≥ 0x80`: `(len & 0x7f)` UCS-2 (UTF-16LE) code units, NUL included; some games
  put a stray `0x01` between the length byte and the text.  The text a user is entitled to: the
  characters sent, minus colour escapes (`ESC r g b`), minus control characters `0x01–0x1A`, minus
  the terminating NUL — and nothing else; in particular the length byte is not text.
  "Latin-1" is windows-1252 as the Encoding Standard (and encoding_rs) defines the label.
-/
namespace Gd.Unreal2.Spec
open Gd Gd.Unreal2

def u8 (n : Nat) : Bytes := [UInt8.ofNat n]
def le (w n : Nat) : Bytes := natLE w n

/-! ### strings -/

inductive Enc | latin1 | ucs2
  deriving Repr, DecidableEq

/-- a string as a server puts it on the wire -/
structure UStr where
  enc : Enc
  /-- the text in wire units — bytes (Latin-1) or UTF-16 code units (UCS-2) — colour escapes and
  control characters included, the terminating NUL not included -/
  units : List Nat
  /-- the terminating NUL is sent (and counted by the length byte) -/
  nul : Bool
  /-- UCS-2 only: a stray `0x01` follows the length byte -/
  stray : Bool
  deriving Repr, DecidableEq

/-- the units sent -/
def UStr.wire (s : UStr) : List Nat := s.units ++ (if s.nul then [0] else [])

/-- what the length byte counts -/
def UStr.count (s : UStr) : Nat := s.wire.length

def encStr (s : UStr) : Bytes :=
  match s.enc with
  | .latin1 => u8 s.count ++ s.wire.map UInt8.ofNat
  | .ucs2 => u8 (0x80 + s.count) ++ (if s.stray then [1] else []) ++ bytesOfUnits .little s.wire

/-- the characters (Unicode scalar values) the units stand for -/
def UStr.chars (s : UStr) : Option (List Nat) :=
  match s.enc with
  | .latin1 => some (s.units.map fun u => cp1252Char (UInt8.ofNat u))
  | .ucs2 => utf16Decode s.units

/-- remove colour escapes: ESC and the three characters after it (an escape cut short by the end of
the string goes as a whole) -/
def stripColour : List Nat → List Nat
  | [] => []
  | c :: r =>
    if c = 0x1b then
      match r with
      | _ :: _ :: _ :: r' => stripColour r'
      | _ => []
    else c :: stripColour r

def isControl (c : Nat) : Bool := 1 ≤ c && c ≤ 0x1a

/-- the text of a list of characters: colour escapes and control characters removed -/
def strip (cs : List Nat) : List Nat := (stripColour cs).filter (fun c => !isControl c)

/-- the text a user is entitled to (UTF-8) -/
def UStr.text (s : UStr) : Bytes :=
  match s.chars with
  | some cs => utf8Encode (strip cs)
  | none => []

/-- the format's domain for one string: at most 127 units counted by the length byte; units in range
and never NUL (colour components included: servers send 1 for 0); UCS-2 text is well-formed UTF-16;
the stray-`0x01` convention makes a UCS-2 string that itself starts with a byte `0x01`
indistinguishable from one with a stray byte (and an empty one depend on what follows), so those are
outside the domain unless the stray byte is present -/
def wfStr (s : UStr) : Bool :=
  s.count < 128 &&
  match s.enc with
  | .latin1 => s.units.all (fun u => 0 < u && u < 256) && !s.stray
  | .ucs2 => s.units.all (fun u => 0 < u && u < 65536) && (utf16Decode s.units).isSome &&
      (s.stray || match s.wire with
        | [] => false
        | u :: _ => u % 256 != 1)

/-! ### server state and replies -/

structure SPlayer where
  id : Nat
  name : UStr
  ping : Nat
  score : Int
  statsId : Nat
  deriving Repr

structure State where
  /-- the four bytes every reply starts with -/
  header : Bytes
  serverId : Nat
  ip : UStr
  gamePort : Nat
  queryPort : Nat
  name : UStr
  map : UStr
  gameType : UStr
  numPlayers : Nat
  maxPlayers : Nat
  /-- the rest of the info reply (ping, flags, skill, …), which this client does not report -/
  extra : Bytes
  /-- the key/value pairs of the rules reply in the order sent; a mutator is the pair `Mutator = name` -/
  pairs : List (UStr × UStr)
  players : List SPlayer
  deriving Repr

def reply (st : State) (kind : Nat) (body : Bytes) : Bytes := st.header ++ u8 kind ++ body

def encInfo (st : State) : Bytes :=
  le 4 st.serverId ++ encStr st.ip ++ le 4 st.gamePort ++ le 4 st.queryPort ++ encStr st.name ++
  encStr st.map ++ encStr st.gameType ++ le 4 st.numPlayers ++ le 4 st.maxPlayers ++ st.extra

def encPair (p : UStr × UStr) : Bytes := encStr p.1 ++ encStr p.2

def encPlayer (p : SPlayer) : Bytes :=
  le 4 p.id ++ encStr p.name ++ le 4 p.ping ++ le 4 (ofSigned 32 p.score) ++ le 4 p.statsId

/-- cut a list into consecutive groups of the given sizes; what is left is the last group -/
def split : List Nat → List α → List (List α)
  | [], l => [l]
  | n :: r, l => l.take n :: split r (l.drop n)

inductive Outcome | valid | silent | malformed
  deriving Repr, DecidableEq

structure Config where
  gather : Gather
  retries : Nat
  /-- entries per datagram of the rules / players answer (the remainder goes into a last datagram) -/
  rulesCuts : List Nat
  playersCuts : List Nat
  /-- how the server treats the rules / players request -/
  rulesOutcome : Outcome
  playersOutcome : Outcome
  deriving Repr

def infoDatagram (st : State) : Bytes := reply st 0 (encInfo st)

def rulesDatagrams (cfg : Config) (st : State) : List Bytes :=
  (split cfg.rulesCuts st.pairs).map fun c => reply st 1 (c.map encPair).flatten

def playersDatagrams (cfg : Config) (st : State) : List Bytes :=
  (split cfg.playersCuts st.players).map fun c => reply st 2 (c.map encPlayer).flatten

/-- a datagram no conforming server sends (too short to carry the reply header) -/
def malformedDatagram : Bytes := [0xFF, 0xFF]

/-- what arrives for one optional section.  `listens`: after a valid answer the client keeps
listening for further datagrams until nothing arrives for a timeout. -/
def sectionScript (t : Toggle) (o : Outcome) (retries : Nat) (dgs : List Bytes) (listens : Bool) : List Delivery :=
  match t, o with
  | .skip, _ => []
  | _, .valid => dgs.map .data ++ (if listens then [.silence] else [])
  | _, .silent => List.replicate (retries + 1) .silence
  | _, .malformed => [.data malformedDatagram]

def rulesSection (cfg : Config) (st : State) : List Delivery :=
  sectionScript cfg.gather.mutatorsAndRules cfg.rulesOutcome cfg.retries (rulesDatagrams cfg st) true

def playersSection (cfg : Config) (st : State) : List Delivery :=
  sectionScript cfg.gather.players cfg.playersOutcome cfg.retries (playersDatagrams cfg st) false

/-- the rules section ends the query (required and failed) -/
def rulesFatal (cfg : Config) : Bool :=
  cfg.gather.mutatorsAndRules == .enforce && cfg.rulesOutcome != .valid

/-- everything that arrives at the client's socket, in order -/
def script (cfg : Config) (st : State) : List Delivery :=
  [.data (infoDatagram st)] ++ rulesSection cfg st ++ (if rulesFatal cfg then [] else playersSection cfg st)

/-! ### the response a user is entitled to -/

def isMutatorKey (k : Bytes) : Bool := asciiLower k == asciiBytes "mutator"

/-- first occurrences, in order -/
def firsts : List Bytes → List Bytes
  | [] => []
  | k :: r => k :: (firsts r).filter (· != k)

def valuesOf (kv : List (Bytes × Bytes)) (k : Bytes) : List Bytes := (kv.filter (·.1 == k)).map (·.2)

def pairTexts (st : State) : List (Bytes × Bytes) := st.pairs.map fun p => (p.1.text, p.2.text)

/-- every mutator once -/
def expectedMutators (kv : List (Bytes × Bytes)) : List Bytes :=
  firsts ((kv.filter (isMutatorKey ·.1)).map (·.2))

/-- every rule value under its key, values in the order sent -/
def expectedRules (kv : List (Bytes × Bytes)) : RuleMap :=
  let rs := kv.filter (!isMutatorKey ·.1)
  (firsts (rs.map (·.1))).map fun k => (k, valuesOf rs k)

def expectedMR (st : State) : MutatorsAndRules := ⟨expectedMutators (pairTexts st), expectedRules (pairTexts st)⟩

def expectedPlayer (p : SPlayer) : Player := ⟨p.id, p.name.text, p.ping, p.score, p.statsId⟩

/-- every player once: a bot if and only if its ping is 0 -/
def expectedPlayers (st : State) : Players :=
  ⟨(st.players.filter (·.ping != 0)).map expectedPlayer, (st.players.filter (·.ping == 0)).map expectedPlayer⟩

/-- the server is passworded when its `GamePassword` rule says `true` (any case) -/
def expectedPassword (mr : MutatorsAndRules) : Bool :=
  match mr.rules.lookup (asciiBytes "GamePassword") with
  | some vs => asciiLower vs.flatten == asciiBytes "true"
  | none => false

/-- C11's table: what a section contributes -/
def sectionResult (t : Toggle) (o : Outcome) (v : α) : Res (Option α) :=
  match t, o with
  | .skip, _ => .ok none
  | _, .valid => .ok (some v)
  | .try_, _ => .ok none
  | .enforce, .silent => .err .packetReceive
  | .enforce, .malformed => .err .packetBad

def expected (cfg : Config) (st : State) : Res Response := do
  let mr ← sectionResult cfg.gather.mutatorsAndRules cfg.rulesOutcome (expectedMR st)
  let mr := mr.getD .empty
  let players ← sectionResult cfg.gather.players cfg.playersOutcome (expectedPlayers st)
  pure ⟨⟨st.serverId, st.ip.text, st.gamePort, st.queryPort, st.name.text, st.map.text, st.gameType.text,
          st.numPlayers, st.maxPlayers, expectedPassword mr⟩, mr, players.getD .empty⟩

/-! ### requests (C09) -/

def request (kind : Nat) : Bytes := [0x79, 0, 0, 0, UInt8.ofNat kind]

/-- requests a conforming client sends for one optional section: none when skipped, one when it is
answered (well or badly), `retries + 1` when nothing comes back -/
def sectionRequests (t : Toggle) (o : Outcome) (retries : Nat) (kind : Nat) : List Bytes :=
  match t, o with
  | .skip, _ => []
  | _, .silent => List.replicate (retries + 1) (request kind)
  | _, _ => [request kind]

def requests (cfg : Config) (_st : State) : List Bytes :=
  [request 0] ++ sectionRequests cfg.gather.mutatorsAndRules cfg.rulesOutcome cfg.retries 1 ++
  (if rulesFatal cfg then [] else sectionRequests cfg.gather.players cfg.playersOutcome cfg.retries 2)

/-- deliveries per section (for the fault-injection generators) -/
def segments (cfg : Config) (st : State) : List Nat :=
  [1, (rulesSection cfg st).length, if rulesFatal cfg then 0 else (playersSection cfg st).length]

/-! ### well-formedness (the format's domain) -/

def wfPlayer (p : SPlayer) : Bool :=
  p.id < 2 ^ 32 && wfStr p.name && p.ping < 2 ^ 32 && (-(2 ^ 31 : Int) ≤ p.score) && (p.score < 2 ^ 31) &&
  p.statsId < 2 ^ 32

/-- the client stops listening for players datagrams once it has as many entries as the info reply
announced: the announced number must not be reached before the last datagram -/
def playersAnnounced (cfg : Config) (st : State) : Bool :=
  let groups := split cfg.playersCuts st.players
  groups.length ≤ 1 || (groups.dropLast.flatten.length < st.numPlayers)

def wf (cfg : Config) (st : State) : Bool :=
  st.header.length == 4 && st.serverId < 2 ^ 32 && wfStr st.ip && st.gamePort < 2 ^ 32 && st.queryPort < 2 ^ 32 &&
  wfStr st.name && wfStr st.map && wfStr st.gameType && st.numPlayers < 2 ^ 32 && st.maxPlayers < 2 ^ 32 &&
  st.pairs.all (fun p => wfStr p.1 && wfStr p.2) && st.players.all wfPlayer &&
  (infoDatagram st).length ≤ PACKET_SIZE &&
  (rulesDatagrams cfg st).all (·.length ≤ PACKET_SIZE) && (playersDatagrams cfg st).all (·.length ≤ PACKET_SIZE) &&
  playersAnnounced cfg st

end Gd.Unreal2.Spec
