import GdVerif.Proto.Valve
/-
  SPEC for C02: what a server conforming to Valve's "Server queries" page sends for an abstract
  server state, and what response a user is entitled to.  Short on purpose: a reader checks this
  against the specification, the theorems relate the MODEL of the code to it.
-/
namespace Gd.Valve.Spec
open Gd Gd.Valve

def cstr (s : Bytes) : Bytes := s ++ [0]
def u8 (n : Nat) : Bytes := [UInt8.ofNat n]
def le (w n : Nat) : Bytes := natLE w n
def boolByte (b : Bool) : Bytes := [if b then 1 else 0]
def optEnc (f : α → Bytes) : Option α → Bytes
  | none => []
  | some a => f a

/-- abstract server state: exactly the data a complete response carries -/
structure State where
  info : ServerInfo
  players : List ServerPlayer
  rules : Rules
  deriving Repr

def serverTypeByte (upper : Bool) : ServerType → Nat
  | .dedicated => if upper then 68 else 100
  | .nonDedicated => if upper then 76 else 108
  | .tv => if upper then 80 else 112

def environmentByte (upper : Bool) : Environment → Nat
  | .linux => if upper then 76 else 108
  | .windows => if upper then 87 else 119
  | .mac => if upper then 77 else 109

/-- Extra Data Flag byte -/
def edf (e : ExtraData) : Nat :=
  (if e.port.isSome then 0x80 else 0) + (if e.steamId.isSome then 0x10 else 0) +
  (if e.tvPort.isSome then 0x40 else 0) + (if e.keywords.isSome then 0x20 else 0) +
  (if e.gameId.isSome then 0x01 else 0)

def encExtra (e : ExtraData) : Bytes :=
  u8 (edf e) ++ optEnc (le 2) e.port ++ optEnc (le 8) e.steamId ++ optEnc (le 2) e.tvPort ++
  optEnc cstr e.tvName ++ optEnc cstr e.keywords ++ optEnc (le 8) e.gameId

def encShip (t : TheShip) : Bytes := u8 t.mode ++ u8 t.witnesses ++ u8 t.duration

/-- body of an `A2S_INFO` reply in the Source layout (after `FFFFFFFF 49`).
`upper`: servers may send the type bytes in either case. -/
def encSourceInfo (upper : Bool) (i : ServerInfo) : Bytes :=
  u8 i.protocolVersion ++ cstr i.name ++ cstr i.map ++ cstr i.folder ++ cstr i.gameMode ++
  le 2 (i.appid % 65536) ++ u8 i.playersOnline ++ u8 i.playersMaximum ++ u8 i.playersBots ++
  u8 (serverTypeByte upper i.serverType) ++ u8 (environmentByte upper i.environmentType) ++
  boolByte i.hasPassword ++ boolByte i.vacSecured ++ optEnc encShip i.theShip ++ cstr i.gameVersion ++
  optEnc encExtra i.extraData

def encMod (m : ModData) : Bytes :=
  cstr m.link ++ cstr m.downloadLink ++ [0] ++ le 4 m.version ++ le 4 m.size ++
  boolByte m.multiplayerOnly ++ boolByte m.hasOwnDll

/-- body of the obsolete GoldSrc `A2S_INFO` reply (after `FFFFFFFF 6D`) -/
def encGoldSrcInfo (address : Bytes) (i : ServerInfo) : Bytes :=
  cstr address ++ cstr i.name ++ cstr i.map ++ cstr i.folder ++ cstr i.gameMode ++
  u8 i.playersOnline ++ u8 i.playersMaximum ++ u8 i.protocolVersion ++
  u8 (serverTypeByte true i.serverType) ++ u8 (environmentByte true i.environmentType) ++
  boolByte i.hasPassword ++ boolByte i.isMod ++ optEnc encMod i.modData ++
  boolByte i.vacSecured ++ u8 i.playersBots

def encPlayer (idx : Nat) (p : ServerPlayer) : Bytes :=
  u8 idx ++ cstr p.name ++ le 4 (ofSigned 32 p.score) ++ le 4 p.duration ++
  optEnc (le 4) p.deaths ++ optEnc (le 4) p.money

def encPlayersFrom : Nat → List ServerPlayer → Bytes
  | _, [] => []
  | i, p :: r => encPlayer i p ++ encPlayersFrom (i + 1) r

/-- body of an `A2S_PLAYER` reply (after `FFFFFFFF 44`) -/
def encPlayers (ps : List ServerPlayer) : Bytes := u8 ps.length ++ encPlayersFrom 0 ps

def encRule (r : Bytes × Bytes) : Bytes := cstr r.1 ++ cstr r.2

/-- body of an `A2S_RULES` reply (after `FFFFFFFF 45`) -/
def encRules (rs : Rules) : Bytes := le 2 rs.length ++ (rs.map encRule).flatten

def header : Bytes := [0xFF, 0xFF, 0xFF, 0xFF]
def splitHeader : Bytes := [0xFE, 0xFF, 0xFF, 0xFF]

/-- a complete single-datagram reply -/
def reply (kind : Nat) (body : Bytes) : Bytes := header ++ u8 kind ++ body

def challengeReply (c : Bytes) : Bytes := reply 0x41 c

/-! ### transport encodings -/

/-- cut `bs` into chunks of the given sizes; the remainder is the last chunk -/
def chunks : List Nat → Bytes → List Bytes
  | [], bs => [bs]
  | n :: r, bs => bs.take n :: chunks r (bs.drop n)

inductive Transport
  | single
  /-- Source split packets at the given chunk sizes -/
  | sourceSplit (id : Nat) (sizes : List Nat)
  /-- GoldSrc split packets -/
  | goldSplit (id : Nat) (sizes : List Nat)
  /-- Source split packets carrying the bzip2-compressed reply: `z` is the compressed stream that is cut into chunks,
  `crc` the CRC-32 of the uncompressed reply (both computed by the server; bzip2 and CRC-32 are not part of the SPEC,
  the theorems relate them to the client's decoder by a law); bit 31 of `id` is set -/
  | sourceSplitBz (id : Nat) (sizes : List Nat) (z : Bytes) (crc : Nat)
  deriving Repr

def sourceFragment (withSize : Bool) (id total number : Nat) (chunk : Bytes) : Bytes :=
  splitHeader ++ le 4 id ++ u8 total ++ u8 number ++ (if withSize then le 2 1248 else []) ++ chunk

def goldFragment (id total number : Nat) (chunk : Bytes) : Bytes :=
  splitHeader ++ le 4 id ++ u8 (number * 16 + total) ++ chunk

def enumFrom : Nat → List α → List (Nat × α)
  | _, [] => []
  | i, x :: r => (i, x) :: enumFrom (i + 1) r

/-- the datagrams carrying one reply -/
def datagrams (withSize : Bool) (t : Transport) (packet : Bytes) : List Bytes :=
  match t with
  | .single => [packet]
  | .sourceSplit id sizes =>
    let cs := chunks sizes packet
    (enumFrom 0 cs).map fun (i, c) => sourceFragment withSize id cs.length i c
  | .goldSplit id sizes =>
    let cs := chunks sizes packet
    (enumFrom 0 cs).map fun (i, c) => goldFragment id cs.length i c
  | .sourceSplitBz id sizes z crc =>
    -- fragment 0 announces the uncompressed size and the checksum before its chunk
    let cs := chunks sizes z
    (enumFrom 0 cs).map fun (i, c) =>
      sourceFragment withSize id cs.length i ((if i == 0 then le 4 packet.length ++ le 4 crc else []) ++ c)

/-- how one request is answered: challenge rounds, then the reply over some transport -/
structure Exchange where
  challenges : List Bytes
  transport : Transport
  deriving Repr

structure Config where
  engine : Engine
  gather : Gather
  /-- type bytes upper case -/
  upper : Bool
  /-- address field of the obsolete layout -/
  address : Bytes
  info : Exchange
  players : Exchange
  rules : Exchange
  deriving Repr

/-- the split header has no size field for protocol 7 + app 240 -/
def withSize (engine : Engine) (protocol : Nat) : Bool := !(protocol == 7 && engine == Engine.new 240)

def exchangeDatagrams (engine : Engine) (protocol : Nat) (x : Exchange) (packet : Bytes) : List Bytes :=
  x.challenges.map challengeReply ++ datagrams (withSize engine protocol) x.transport packet

def infoPacket (cfg : Config) (st : State) : Bytes :=
  match cfg.engine with
  | .goldSrc true => reply 0x6D (encGoldSrcInfo cfg.address st.info)
  | _ => reply 0x49 (encSourceInfo cfg.upper st.info)

/-- everything the server sends, in order, when nothing is lost -/
def script (cfg : Config) (st : State) : List Bytes :=
  exchangeDatagrams cfg.engine 0 cfg.info (infoPacket cfg st) ++
  (if cfg.gather.players == .skip then []
   else exchangeDatagrams cfg.engine st.info.protocolVersion cfg.players (reply 0x44 (encPlayers st.players))) ++
  (if cfg.gather.rules == .skip then []
   else exchangeDatagrams cfg.engine st.info.protocolVersion cfg.rules (reply 0x45 (encRules st.rules)))

/-! the same exchange when the datagrams of a split reply arrive in another order (UDP does not keep order) -/

/-- the datagrams carrying the final reply to each of the three requests, in the order the server emits them -/
def infoDatagrams (cfg : Config) (st : State) : List Bytes :=
  datagrams (withSize cfg.engine 0) cfg.info.transport (infoPacket cfg st)
def playersDatagrams (cfg : Config) (st : State) : List Bytes :=
  datagrams (withSize cfg.engine st.info.protocolVersion) cfg.players.transport (reply 0x44 (encPlayers st.players))
def rulesDatagrams (cfg : Config) (st : State) : List Bytes :=
  datagrams (withSize cfg.engine st.info.protocolVersion) cfg.rules.transport (reply 0x45 (encRules st.rules))

/-- one exchange with the datagrams of its final reply delivered as `arrival` -/
def exchangeAs (x : Exchange) (arrival : List Bytes) : List Bytes :=
  x.challenges.map challengeReply ++ arrival

/-- what the client receives when the final replies are delivered as `ai`, `ap`, `ar`
(`script cfg st = scriptAs cfg (infoDatagrams cfg st) (playersDatagrams cfg st) (rulesDatagrams cfg st)`) -/
def scriptAs (cfg : Config) (ai ap ar : List Bytes) : List Bytes :=
  exchangeAs cfg.info ai ++
  (if cfg.gather.players == .skip then [] else exchangeAs cfg.players ap) ++
  (if cfg.gather.rules == .skip then [] else exchangeAs cfg.rules ar)

theorem script_eq_scriptAs (cfg : Config) (st : State) :
    script cfg st = scriptAs cfg (infoDatagrams cfg st) (playersDatagrams cfg st) (rulesDatagrams cfg st) := rfl

/-- the rules a user is entitled to see (Risk of Rain 2 quirk: rule `Test` is dropped) -/
def expectedRules (engine : Engine) (rs : Rules) : Rules :=
  if engine == Engine.new 632360 then rs.filter (fun p => p.1 != asciiBytes "Test") else rs

/-- the response a user is entitled to -/
def expected (cfg : Config) (st : State) : Res Response :=
  if !appIdOk cfg.engine cfg.gather st.info.appid then .err .badGame
  else .ok ⟨st.info,
    if cfg.gather.players == .skip then none else some st.players,
    if cfg.gather.rules == .skip then none else some (expectedRules cfg.engine st.rules)⟩

/-! ### requests (C09): what the client must put on the wire -/

def a2sInfoRequest : Bytes := header ++ [0x54] ++ asciiBytes "Source Engine Query" ++ [0]
def a2sPlayerRequest (challenge : Bytes) : Bytes := header ++ [0x55] ++ challenge
def a2sRulesRequest (challenge : Bytes) : Bytes := header ++ [0x56] ++ challenge
def noChallenge : Bytes := [0xFF, 0xFF, 0xFF, 0xFF]

/-- the requests a conforming client sends against this server, in order: each request first
without a challenge, then once per challenge the server issues, carrying exactly that challenge -/
def requests (cfg : Config) (st : State) : List Bytes :=
  (a2sInfoRequest :: cfg.info.challenges.map (a2sInfoRequest ++ ·)) ++
  (if !appIdOk cfg.engine cfg.gather st.info.appid then []
   else
    (if cfg.gather.players == .skip then []
     else a2sPlayerRequest noChallenge :: cfg.players.challenges.map a2sPlayerRequest) ++
    (if cfg.gather.rules == .skip then []
     else a2sRulesRequest noChallenge :: cfg.rules.challenges.map a2sRulesRequest))

/-- datagrams per exchange (for the fault-injection generators) -/
def segments (cfg : Config) (st : State) : List Nat :=
  [(exchangeDatagrams cfg.engine 0 cfg.info (infoPacket cfg st)).length,
   (if cfg.gather.players == .skip then 0
    else (exchangeDatagrams cfg.engine st.info.protocolVersion cfg.players (reply 0x44 (encPlayers st.players))).length),
   (if cfg.gather.rules == .skip then 0
    else (exchangeDatagrams cfg.engine st.info.protocolVersion cfg.rules (reply 0x45 (encRules st.rules))).length)]

/-! ### well-formedness (the specification's domain) -/

def okStr (s : Bytes) : Bool := !s.contains 0 && validUtf8 s

/-- non-NUL ASCII (the address field of the obsolete layout is `ip:port` text) -/
def isAsciiText (s : Bytes) : Bool := s.all (fun b => b.toNat < 128 && b != 0)

def wfExtra (e : ExtraData) : Bool :=
  (e.port.all (· < 2 ^ 16)) && (e.steamId.all (· < 2 ^ 64)) && (e.tvPort.all (· < 2 ^ 16)) &&
  (e.tvPort.isSome == e.tvName.isSome) && (e.tvName.all okStr) && (e.keywords.all okStr) &&
  (e.gameId.all (· < 2 ^ 64))

def wfMod (m : ModData) : Bool :=
  okStr m.link && okStr m.downloadLink && m.version < 2 ^ 32 && m.size < 2 ^ 32

def wfPlayer (ship : Bool) (p : ServerPlayer) : Bool :=
  okStr p.name && (-(2 ^ 31 : Int) ≤ p.score) && (p.score < 2 ^ 31) && p.duration < 2 ^ 32 &&
  (p.deaths.isSome == ship) && (p.money.isSome == ship) && (p.deaths.all (· < 2 ^ 32)) && (p.money.all (· < 2 ^ 32))

def distinctKeys : Rules → Bool
  | [] => true
  | (k, _) :: r => !(r.any (fun p => p.1 == k)) && distinctKeys r

def wfCommon (i : ServerInfo) : Bool :=
  i.protocolVersion < 256 && okStr i.name && okStr i.map && okStr i.folder && okStr i.gameMode &&
  i.playersOnline < 256 && i.playersMaximum < 256 && i.playersBots < 256

/-- Source layout -/
def wfSourceInfo (engine : Engine) (i : ServerInfo) : Bool :=
  wfCommon i && okStr i.gameVersion && (i.theShip.isSome == (engine == Engine.new 2400)) &&
  (i.theShip.all fun t => t.mode < 256 && t.witnesses < 256 && t.duration < 256) &&
  (i.extraData.all wfExtra) && !i.isMod && i.modData.isNone &&
  (match i.extraData.bind (·.gameId) with
   | some gid => i.appid == gid % 2 ^ 24
   | none => i.appid < 2 ^ 16)

/-- obsolete GoldSrc layout -/
def wfGoldSrcInfo (address : Bytes) (i : ServerInfo) : Bool :=
  wfCommon i && isAsciiText address && !address.isEmpty && i.appid == 0 && i.theShip.isNone && i.gameVersion.isEmpty &&
  i.extraData.isNone && (i.isMod == i.modData.isSome) && (i.modData.all wfMod) &&
  i.environmentType != .mac

def wf (cfg : Config) (st : State) : Bool :=
  (match cfg.engine with
   | .goldSrc true => wfGoldSrcInfo cfg.address st.info
   | e => wfSourceInfo e st.info) &&
  st.players.length < 256 && st.players.all (wfPlayer (cfg.engine == Engine.new 2400)) &&
  st.rules.length < 65536 && st.rules.all (fun p => okStr p.1 && okStr p.2) && distinctKeys st.rules

/-- a transport as the specification prescribes it for this engine: Source engines split in the Source layout
(uncompressed: bit 31 of the id clear, or bzip2-compressed: bit 31 set; the fragment count travels in one byte),
GoldSrc engines in the GoldSrc layout (count and number share one byte: at most 15 fragments).  Any cut points. -/
def wfTransport (engine : Engine) : Transport → Bool
  | .single => true
  | .sourceSplit id sizes =>
    (match engine with | .source _ => true | .goldSrc _ => false) && id < 2 ^ 31 && sizes.length + 1 < 256
  | .goldSplit id sizes =>
    (match engine with | .goldSrc _ => true | .source _ => false) && id < 2 ^ 32 && sizes.length + 1 < 16
  | .sourceSplitBz id sizes _ crc =>
    (match engine with | .source _ => true | .goldSrc _ => false) && 2 ^ 31 ≤ id && id < 2 ^ 32 &&
      sizes.length + 1 < 256 && crc < 2 ^ 32

def Transport.compressed : Transport → Bool
  | .sourceSplitBz _ _ _ _ => true
  | _ => false

/-- a compressed transport carries what the server's compressor and checksum give for the reply; the client
refuses to decompress more than 4 MiB (`MAX_DECOMPRESSED_SIZE`), so the reply is within that -/
def Transport.carries (compress : Bytes → Bytes) (crc32 : Bytes → Nat) (packet : Bytes) : Transport → Prop
  | .sourceSplitBz _ _ z crc => z = compress packet ∧ crc = crc32 packet ∧ packet.length ≤ maxDecompressedSize
  | _ => True

/-- the transports of the sections that are asked for (any number of challenge rounds, any challenge bytes) -/
def wfExchanges (cfg : Config) : Bool :=
  wfTransport cfg.engine cfg.info.transport &&
  (cfg.gather.players == .skip || wfTransport cfg.engine cfg.players.transport) &&
  (cfg.gather.rules == .skip || wfTransport cfg.engine cfg.rules.transport)

/-- no reply is compressed -/
def uncompressed (cfg : Config) : Bool :=
  !cfg.info.transport.compressed && !cfg.players.transport.compressed && !cfg.rules.transport.compressed

/-- every datagram fits the client's receive buffer (6144 bytes; the specification's datagrams are at most 1400) -/
def fits (ds : List Bytes) : Bool := ds.all (fun d => d.length ≤ PACKET_SIZE)

/-- every compressed reply of the exchange was produced by `compress` / `crc32` -/
def carries (compress : Bytes → Bytes) (crc32 : Bytes → Nat) (cfg : Config) (st : State) : Prop :=
  cfg.info.transport.carries compress crc32 (infoPacket cfg st) ∧
  cfg.players.transport.carries compress crc32 (reply 0x44 (encPlayers st.players)) ∧
  cfg.rules.transport.carries compress crc32 (reply 0x45 (encRules st.rules))

end Gd.Valve.Spec
