import GdVerif.Spec.Quake
import GdVerif.Spec.Faults
/-
  SPEC for C10 on whole Quake 1 / 2 / 3 queries: the exchange of `Spec/Quake.lean` with FAULTS injected.

  The retried unit is the one status exchange (send the request, receive one datagram, check its header).  A plan
  (`Faults.Plan1`) lists the attempts that end in a timeout-class failure (`false`: the reply is lost, `true`: the request
  cannot be sent) and the datagram that finally answers (`some`: the server's reply — or a malformed datagram), or `none`
  when the client has given up.  `props/families/quake.py: c10_build` builds exactly `Plan1.deliveries` / `Plan1.faults`.
-/
namespace Gd.Quake.Spec
open Gd Gd.Quake Gd.Faults

/-- the plan in which the server's reply comes after the failed attempts `fails` -/
def recovering (cfg : Config) (st : State) (fails : List Bool) : Plan1 := ⟨fails, some (reply cfg st)⟩

/-- a datagram the header check of `get_data_impl` rejects: shorter than the 4-byte out-of-band marker, or the marker
followed by something that does not start with the version's response header -/
def malformed (v : Version) (m : Bytes) : Bool :=
  m.length < 4 || (m.take 4 == [0xFF, 0xFF, 0xFF, 0xFF] && !(header v).isPrefixOf (m.drop 4))

/-- the error it is rejected with -/
def malformedError (m : Bytes) : ErrKind := if m.length < 4 then .packetUnderflow else .packetBad

end Gd.Quake.Spec
