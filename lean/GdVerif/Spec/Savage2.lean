import GdVerif.Proto.Savage2
/-
  SPEC for C07 / Savage 2.  Written from node-gamedig's reader (`protocols/savage2.js`):

      udpSend('\x01')
      reader.skip(12)
      name = reader.string();  numplayers = reader.uint(1);  maxplayers = reader.uint(1)
      time = reader.string();  map = reader.string();  nextmap = reader.string();  location = reader.string()
      minplayers = reader.uint(1);  gametype = reader.string();  version = reader.string()
      minlevel = reader.uint(1)
      // ignore the rest

  `string()` = bytes up to a NUL.  The default query port is 11235.  (Interpretations: node-gamedig decodes the
  strings as Latin-1 and strips `^x` colour codes from the name for display; the specification's domain below is
  the strings on which every decoding agrees on the bytes — valid UTF-8 — and the response carries them verbatim.)
-/
namespace Gd.Savage2.Spec
open Gd Gd.Savage2

/-- abstract server state: what the reply carries -/
structure State where
  /-- the 12 bytes the reader skips -/
  header : Bytes
  name : Bytes
  numPlayers : Nat
  maxPlayers : Nat
  time : Bytes
  map : Bytes
  nextMap : Bytes
  location : Bytes
  minPlayers : Nat
  gameType : Bytes
  version : Bytes
  minLevel : Nat
  /-- whatever follows ("ignore the rest") -/
  rest : Bytes
  deriving Repr

def cstr (s : Bytes) : Bytes := s ++ [0]
def u8 (n : Nat) : Bytes := [UInt8.ofNat n]

/-- the reply datagram -/
def encode (st : State) : Bytes :=
  st.header ++ cstr st.name ++ u8 st.numPlayers ++ u8 st.maxPlayers ++ cstr st.time ++ cstr st.map ++
  cstr st.nextMap ++ cstr st.location ++ u8 st.minPlayers ++ cstr st.gameType ++ cstr st.version ++
  u8 st.minLevel ++ st.rest

def script (st : State) : List Bytes := [encode st]

/-- the response a user is entitled to -/
def expected (st : State) : Response :=
  { name := st.name, playersOnline := st.numPlayers, playersMaximum := st.maxPlayers,
    playersMinimum := st.minPlayers, time := st.time, map := st.map, nextMap := st.nextMap,
    location := st.location, gameMode := st.gameType, protocolVersion := st.version, levelMinimum := st.minLevel }

/-- C09: one datagram holding the single byte 0x01 -/
def infoRequest : Bytes := [0x01]
def requests (_ : State) : List Bytes := [infoRequest]
def defaultPort : Nat := 11235

def okStr (s : Bytes) : Bool := !s.contains 0 && validUtf8 s

def wf (st : State) : Bool :=
  st.header.length == 12 && okStr st.name && st.numPlayers < 256 && st.maxPlayers < 256 && okStr st.time &&
  okStr st.map && okStr st.nextMap && okStr st.location && st.minPlayers < 256 && okStr st.gameType &&
  okStr st.version && st.minLevel < 256 && (encode st).length ≤ 1024

end Gd.Savage2.Spec
