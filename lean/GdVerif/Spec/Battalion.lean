import GdVerif.Proto.Battalion
import GdVerif.Spec.Valve
/-
  SPEC for C07 / Battalion 1944.  The game speaks the Valve A2S protocol (`Spec/Valve.lean`) with app id 489940
  but reports part of its state through rules (node-gamedig's Valve reader, `cleanup` for this app id):

      bat_name_s          the server name            bat_gamemode_s      the game mode
      bat_player_count_s  players online (decimal)   bat_max_players_i   maximum players (decimal)
      bat_has_password_s  "Y" iff a password is set   bat_map_s           often wrong: dropped, the map stays

  Each of the five overrides that is present replaces the corresponding field of the info reply and is removed
  from the rules; `bat_map_s` is removed.  Default query port 7780 (game port 7777 + 3).
-/
namespace Gd.Battalion.Spec
open Gd Gd.Valve Gd.Valve.Spec

def batEngine : Engine := Engine.new 489940
def batConfig (cfg : Config) : Config := { cfg with engine := batEngine, gather := Gather.default }

def rule (rs : Rules) (name : String) : Option Bytes := (rs.find? (fun p => p.1 == asciiBytes name)).map (·.2)

def batKeys : List Bytes :=
  ["bat_max_players_i", "bat_player_count_s", "bat_has_password_s", "bat_name_s", "bat_gamemode_s", "bat_map_s"].map asciiBytes

/-- value of a decimal string -/
def decimal (v : Bytes) : Nat := v.foldl (fun acc b => acc * 10 + (b.toNat - 48)) 0

/-- a decimal number 0–255 -/
def okNum (v : Bytes) : Bool := !v.isEmpty && v.all isDigit && decimal v < 256

/-- the response a user is entitled to -/
def expected (st : State) : Res Games.GameResponse :=
  if st.info.appid != 489940 then .err .badGame
  else .ok
    { protocol := st.info.protocolVersion,
      name := (rule st.rules "bat_name_s").getD st.info.name,
      map := st.info.map,
      game := (rule st.rules "bat_gamemode_s").getD st.info.gameMode,
      appid := st.info.appid,
      playersOnline := ((rule st.rules "bat_player_count_s").map decimal).getD st.info.playersOnline,
      playersDetails := st.players.map fun p => ⟨p.name, p.score, p.duration⟩,
      playersMaximum := ((rule st.rules "bat_max_players_i").map decimal).getD st.info.playersMaximum,
      playersBots := st.info.playersBots, serverType := st.info.serverType,
      hasPassword := ((rule st.rules "bat_has_password_s").map (· == asciiBytes "Y")).getD st.info.hasPassword,
      vacSecured := st.info.vacSecured, version := st.info.gameVersion,
      port := st.info.extraData.bind (·.port), steamId := st.info.extraData.bind (·.steamId),
      tvPort := st.info.extraData.bind (·.tvPort), tvName := st.info.extraData.bind (·.tvName),
      keywords := st.info.extraData.bind (·.keywords),
      rules := st.rules.filter fun p => !batKeys.contains p.1 }

def defaultPort : Nat := 7780

/-- the domain: a well-formed Valve state for this engine whose numeric overrides are decimal numbers 0–255 -/
def wf (cfg : Config) (st : State) : Bool :=
  Valve.Spec.wf (batConfig cfg) st &&
  (rule st.rules "bat_max_players_i").all okNum && (rule st.rules "bat_player_count_s").all okNum

end Gd.Battalion.Spec
