import GdVerif.Proto.Eco
/-
  SPEC for C07 / Eco.  An Eco server answers `GET /frontpage` (web port, default 3001) with a JSON document whose
  member `Info` carries the server state under the member names listed below.  The game's query returns each of
  them in the correspondingly named response field; the correspondence (JSON member → response field) is:

      External → external            GamePort → port                  WebPort → query_port
      IsLAN → is_lan                 Description → description         DetailedDescription → description_detailed
      EconomyDesc → description_economy   Category → category          OnlinePlayers → players_online
      TotalPlayers → players_maximum      OnlinePlayersNames → players (one player per name, in order)
      Version → game_version         JoinUrl → connect                 every other member → the field of the same
                                                                       name in snake_case

  Numbers: the counters are unsigned 32-bit integers, the four times / multipliers are IEEE doubles.
-/
namespace Gd.Eco.Spec
open Gd Gd.Eco

/-- a double that has a finite decimal expansion: `± n / 2^k` -/
structure Dyadic where
  neg : Bool
  n : Nat
  k : Nat
  deriving Repr

def log2 (n : Nat) : Nat := n.log2

/-- IEEE-754 binary64 bit pattern of a dyadic with `n < 2^53` and a normal exponent -/
def Dyadic.bits (d : Dyadic) : Nat :=
  let sign := if d.neg then 2 ^ 63 else 0
  if d.n == 0 then sign
  else
    let b := log2 d.n
    sign + (b + 1023 - d.k) * 2 ^ 52 + (d.n * 2 ^ (52 - b) - 2 ^ 52)

/-- exact decimal text: integer part, and `k` fractional digits when `k > 0` -/
def Dyadic.text (d : Dyadic) : Bytes :=
  let scaled := d.n * 5 ^ d.k            -- n / 2^k = n·5^k / 10^k
  let ip := scaled / 10 ^ d.k
  let fp := scaled % 10 ^ d.k
  let fdigits := natDec fp
  let frac := if d.k == 0 then [] else [46] ++ List.replicate (d.k - fdigits.length) 48 ++ fdigits
  (if d.neg then [45] else []) ++ natDec ip ++ frac

/-- abstract server state: the `Info` member, the four doubles given exactly -/
structure State where
  info : Info
  timeSinceStart : Dyadic
  timeLeft : Dyadic
  shelfLifeMultiplier : Dyadic
  exhaustionAfterHours : Dyadic
  deriving Repr

/-- the response a user is entitled to -/
def expected (st : State) : Response :=
  let i := st.info
  { external := i.external, port := i.gamePort, queryPort := i.webPort, isLan := i.isLan,
    description := i.description, descriptionDetailed := i.detailedDescription, descriptionEconomy := i.economyDesc,
    category := i.category, playersOnline := i.onlinePlayers, playersMaximum := i.totalPlayers,
    players := i.onlinePlayersNames.map Player.mk, adminOnline := i.adminOnline,
    timeSinceStart := st.timeSinceStart.bits, timeLeft := st.timeLeft.bits,
    animals := i.animals, plants := i.plants, laws := i.laws, worldSize := i.worldSize, gameVersion := i.version,
    skillSpecializationSetting := i.skillSpecializationSetting, language := i.language,
    hasPassword := i.hasPassword, hasMeteor := i.hasMeteor,
    distributionStationItems := i.distributionStationItems, playtimes := i.playtimes,
    discordAddress := i.discordAddress, isPaused := i.isPaused,
    activeAndOnlinePlayers := i.activeAndOnlinePlayers, peakActivePlayers := i.peakActivePlayers,
    maxActivePlayers := i.maxActivePlayers, shelfLifeMultiplier := st.shelfLifeMultiplier.bits,
    exhaustionAfterHours := st.exhaustionAfterHours.bits, isLimitingHours := i.isLimitingHours,
    serverAchievementsDict := i.serverAchievementsDict, relayAddress := i.relayAddress, access := i.access,
    connect := i.joinUrl }

/-! ### the document (RFC 8259) -/

def hex4 (n : Nat) : Bytes := (hexOf [UInt8.ofNat (n / 256), UInt8.ofNat (n % 256)]).toList.map fun c => UInt8.ofNat c.toNat

/-- a JSON string literal for valid UTF-8 text: `"` and `\` and the control characters escaped -/
def jstr (s : Bytes) : Bytes :=
  [34] ++ s.flatMap (fun b =>
    if b == 34 then [92, 34] else if b == 92 then [92, 92]
    else if b.toNat < 32 then [92, 117] ++ hex4 b.toNat else [b]) ++ [34]

def jbool (b : Bool) : Bytes := asciiBytes (if b then "true" else "false")
def jnat (n : Nat) : Bytes := natDec n
def sepBy (sep : Bytes) : List Bytes → Bytes
  | [] => []
  | [x] => x
  | x :: r => x ++ sep ++ sepBy sep r
def jarr (l : List Bytes) : Bytes := [91] ++ sepBy [44] l ++ [93]
def jobj (l : List (Bytes × Bytes)) : Bytes := [123] ++ sepBy [44] (l.map fun kv => jstr kv.1 ++ [58] ++ kv.2) ++ [125]

/-- the members of `Info`, in the order the server writes them -/
def members (st : State) : List (Bytes × Bytes) :=
  let i := st.info
  [
   (asciiBytes "External", jbool i.external),
   (asciiBytes "GamePort", jnat i.gamePort),
   (asciiBytes "WebPort", jnat i.webPort),
   (asciiBytes "IsLAN", jbool i.isLan),
   (asciiBytes "Description", jstr i.description),
   (asciiBytes "DetailedDescription", jstr i.detailedDescription),
   (asciiBytes "Category", jstr i.category),
   (asciiBytes "OnlinePlayers", jnat i.onlinePlayers),
   (asciiBytes "TotalPlayers", jnat i.totalPlayers),
   (asciiBytes "OnlinePlayersNames", jarr (i.onlinePlayersNames.map jstr)),
   (asciiBytes "AdminOnline", jbool i.adminOnline),
   (asciiBytes "TimeSinceStart", st.timeSinceStart.text),
   (asciiBytes "TimeLeft", st.timeLeft.text),
   (asciiBytes "Animals", jnat i.animals),
   (asciiBytes "Plants", jnat i.plants),
   (asciiBytes "Laws", jnat i.laws),
   (asciiBytes "WorldSize", jstr i.worldSize),
   (asciiBytes "Version", jstr i.version),
   (asciiBytes "EconomyDesc", jstr i.economyDesc),
   (asciiBytes "SkillSpecializationSetting", jstr i.skillSpecializationSetting),
   (asciiBytes "Language", jstr i.language),
   (asciiBytes "HasPassword", jbool i.hasPassword),
   (asciiBytes "HasMeteor", jbool i.hasMeteor),
   (asciiBytes "DistributionStationItems", jstr i.distributionStationItems),
   (asciiBytes "Playtimes", jstr i.playtimes),
   (asciiBytes "DiscordAddress", jstr i.discordAddress),
   (asciiBytes "IsPaused", jbool i.isPaused),
   (asciiBytes "ActiveAndOnlinePlayers", jnat i.activeAndOnlinePlayers),
   (asciiBytes "PeakActivePlayers", jnat i.peakActivePlayers),
   (asciiBytes "MaxActivePlayers", jnat i.maxActivePlayers),
   (asciiBytes "ShelfLifeMultiplier", st.shelfLifeMultiplier.text),
   (asciiBytes "ExhaustionAfterHours", st.exhaustionAfterHours.text),
   (asciiBytes "IsLimitingHours", jbool i.isLimitingHours),
   (asciiBytes "ServerAchievementsDict", jobj (i.serverAchievementsDict.map fun kv => (kv.1, jstr kv.2))),
   (asciiBytes "RelayAddress", jstr i.relayAddress),
   (asciiBytes "Access", jstr i.access),
   (asciiBytes "JoinUrl", jstr i.joinUrl)]

/-- the `/frontpage` document -/
def render (st : State) : Bytes := jobj [(asciiBytes "Info", jobj (members st))]

def defaultPort : Nat := 3001

/-! ### well-formedness -/

def okStr (s : Bytes) : Bool := validUtf8 s
def okU32 (n : Nat) : Bool := n < 2 ^ 32
/-- finite decimal expansions of at most 15 significant digits (one spare digit for a trailing zero): every
reader that converts "digits × 10^-k" with one correctly rounded operation decodes them exactly.  (Doubles written
with 16-17 significant digits are outside this domain: serde_json without its `float_roundtrip` feature may be one
unit in the last place off on those.) -/
def okDyadic (d : Dyadic) : Bool := d.n * 5 ^ d.k * 10 < 2 ^ 53 && d.k ≤ 22

def distinctKeys : List (Bytes × Bytes) → Bool
  | [] => true
  | (k, _) :: r => !(r.any fun p => p.1 == k) && distinctKeys r

def wf (st : State) : Bool :=
  let i := st.info
  okU32 i.gamePort &&
  okU32 i.webPort &&
  okStr i.description &&
  okStr i.detailedDescription &&
  okStr i.category &&
  okU32 i.onlinePlayers &&
  okU32 i.totalPlayers &&
  i.onlinePlayersNames.all okStr &&
  okDyadic st.timeSinceStart && i.timeSinceStart == st.timeSinceStart.bits &&
  okDyadic st.timeLeft && i.timeLeft == st.timeLeft.bits &&
  okU32 i.animals &&
  okU32 i.plants &&
  okU32 i.laws &&
  okStr i.worldSize &&
  okStr i.version &&
  okStr i.economyDesc &&
  okStr i.skillSpecializationSetting &&
  okStr i.language &&
  okStr i.distributionStationItems &&
  okStr i.playtimes &&
  okStr i.discordAddress &&
  okU32 i.activeAndOnlinePlayers &&
  okU32 i.peakActivePlayers &&
  okU32 i.maxActivePlayers &&
  okDyadic st.shelfLifeMultiplier && i.shelfLifeMultiplier == st.shelfLifeMultiplier.bits &&
  okDyadic st.exhaustionAfterHours && i.exhaustionAfterHours == st.exhaustionAfterHours.bits &&
  (i.serverAchievementsDict.all fun kv => okStr kv.1 && okStr kv.2) && distinctKeys i.serverAchievementsDict &&
  okStr i.relayAddress &&
  okStr i.access &&
  okStr i.joinUrl

end Gd.Eco.Spec
