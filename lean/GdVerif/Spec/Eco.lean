import GdVerif.Proto.Eco
/-
  SPEC for C07 / Eco.  An Eco server answers `GET /frontpage` (web port, default 3001) with a JSON document whose
  member `Info` carries the server state under the member names listed below.  The game's query returns each of
  them in the correspondingly named response field; the correspondence (JSON member → response field) is:

      External → external            GamePort → port                  WebPort → query_port
      IsLAN → is_lan                 Description → description         DetailedDescription → description_detailed
      EconomyDesc → description_economy   Category → category          OnlinePlayers → players_online
      TotalPlayers → players_maximum      OnlinePlayersNames → players (one player per name, in order)
      Version → game_version         JoinUrl → connect                 every other member → the field of the same
                                                                       name in snake_case

  Numbers: the counters are unsigned 32-bit integers; the four times / multipliers are decimal literals and denote
  the nearest IEEE double (RFC 8259 §6 leaves the precision to the reader; a reader of doubles must round correctly).
-/
namespace Gd.Eco.Spec
open Gd Gd.Eco

/-! ### doubles: a JSON number denotes the IEEE-754 binary64 value nearest to its decimal value -/

def bitLen (n : Nat) : Nat := if n == 0 then 0 else n.log2 + 1

/-- bit pattern of the double nearest to the positive rational `num / den` (ties to even, gradual underflow);
`none` when that is infinite -/
def nearestDouble (num den : Nat) : Option Nat :=
  if num == 0 then some 0 else
  -- 2^fl ≤ num/den < 2^(fl+1)
  let l : Int := (bitLen num : Int) - (bitLen den : Int)
  let geTwoPow (k : Int) : Bool := if k ≥ 0 then num ≥ den * 2 ^ k.toNat else num * 2 ^ (-k).toNat ≥ den
  let fl : Int := if geTwoPow l then l else l - 1
  -- the unit in the last place is 2^e; subnormal numbers share the smallest one
  let e : Int := max (fl - 52) (-1074)
  let n' := if e ≥ 0 then num else num * 2 ^ (-e).toNat
  let d' := if e ≥ 0 then den * 2 ^ e.toNat else den
  let q := n' / d'
  let r := n' % d'
  let q := if 2 * r > d' || (2 * r == d' && q % 2 == 1) then q + 1 else q
  let e : Int := if q == 2 ^ 53 then e + 1 else e
  let q := if q == 2 ^ 53 then 2 ^ 52 else q
  if q < 2 ^ 52 then some q
  else if e + 52 > 1023 then none
  else some ((e + 52 + 1023).toNat * 2 ^ 52 + (q - 2 ^ 52))

/-- a decimal literal `± m × 10^e` -/
structure Decimal where
  neg : Bool
  m : Nat
  e : Int
  deriving Repr

def Decimal.magnitude (d : Decimal) : Option Nat :=
  if d.e ≥ 0 then nearestDouble (d.m * 10 ^ d.e.toNat) 1 else nearestDouble d.m (10 ^ (-d.e).toNat)

/-- the double the literal denotes (0 when it denotes none: such literals are outside the domain) -/
def Decimal.bits (d : Decimal) : Nat := (if d.neg then 2 ^ 63 else 0) + d.magnitude.getD 0

/-- the literal in exponent notation, e.g. `-1234e-2` -/
def Decimal.text (d : Decimal) : Bytes :=
  (if d.neg then [45] else []) ++ natDec d.m ++ (if d.e == 0 then [] else [101] ++ intDec d.e)

/-- abstract server state: the `Info` member, the four doubles as the decimal literals the server writes -/
structure State where
  info : Info
  timeSinceStart : Decimal
  timeLeft : Decimal
  shelfLifeMultiplier : Decimal
  exhaustionAfterHours : Decimal
  deriving Repr

/-- the response a user is entitled to -/
def expected (st : State) : Response :=
  let i := st.info
  { external := i.external, port := i.gamePort, queryPort := i.webPort, isLan := i.isLan,
    description := i.description, descriptionDetailed := i.detailedDescription, descriptionEconomy := i.economyDesc,
    category := i.category, playersOnline := i.onlinePlayers, playersMaximum := i.totalPlayers,
    players := i.onlinePlayersNames.map Player.mk, adminOnline := i.adminOnline,
    timeSinceStart := st.timeSinceStart.bits, timeLeft := st.timeLeft.bits,
    animals := i.animals, plants := i.plants, laws := i.laws, worldSize := i.worldSize, gameVersion := i.version,
    skillSpecializationSetting := i.skillSpecializationSetting, language := i.language,
    hasPassword := i.hasPassword, hasMeteor := i.hasMeteor,
    distributionStationItems := i.distributionStationItems, playtimes := i.playtimes,
    discordAddress := i.discordAddress, isPaused := i.isPaused,
    activeAndOnlinePlayers := i.activeAndOnlinePlayers, peakActivePlayers := i.peakActivePlayers,
    maxActivePlayers := i.maxActivePlayers, shelfLifeMultiplier := st.shelfLifeMultiplier.bits,
    exhaustionAfterHours := st.exhaustionAfterHours.bits, isLimitingHours := i.isLimitingHours,
    serverAchievementsDict := i.serverAchievementsDict, relayAddress := i.relayAddress, access := i.access,
    connect := i.joinUrl }

/-! ### the document (RFC 8259) -/

def hex4 (n : Nat) : Bytes := (hexOf [UInt8.ofNat (n / 256), UInt8.ofNat (n % 256)]).toList.map fun c => UInt8.ofNat c.toNat

/-- a JSON string literal for valid UTF-8 text: `"` and `\` and the control characters escaped -/
def jstr (s : Bytes) : Bytes :=
  [34] ++ s.flatMap (fun b =>
    if b == 34 then [92, 34] else if b == 92 then [92, 92]
    else if b.toNat < 32 then [92, 117] ++ hex4 b.toNat else [b]) ++ [34]

def jbool (b : Bool) : Bytes := asciiBytes (if b then "true" else "false")
def jnat (n : Nat) : Bytes := natDec n
def sepBy (sep : Bytes) : List Bytes → Bytes
  | [] => []
  | [x] => x
  | x :: r => x ++ sep ++ sepBy sep r
def jarr (l : List Bytes) : Bytes := [91] ++ sepBy [44] l ++ [93]
def jobj (l : List (Bytes × Bytes)) : Bytes := [123] ++ sepBy [44] (l.map fun kv => jstr kv.1 ++ [58] ++ kv.2) ++ [125]

/-- the members of `Info`, in the order the server writes them -/
def members (st : State) : List (Bytes × Bytes) :=
  let i := st.info
  [
   (asciiBytes "External", jbool i.external),
   (asciiBytes "GamePort", jnat i.gamePort),
   (asciiBytes "WebPort", jnat i.webPort),
   (asciiBytes "IsLAN", jbool i.isLan),
   (asciiBytes "Description", jstr i.description),
   (asciiBytes "DetailedDescription", jstr i.detailedDescription),
   (asciiBytes "Category", jstr i.category),
   (asciiBytes "OnlinePlayers", jnat i.onlinePlayers),
   (asciiBytes "TotalPlayers", jnat i.totalPlayers),
   (asciiBytes "OnlinePlayersNames", jarr (i.onlinePlayersNames.map jstr)),
   (asciiBytes "AdminOnline", jbool i.adminOnline),
   (asciiBytes "TimeSinceStart", st.timeSinceStart.text),
   (asciiBytes "TimeLeft", st.timeLeft.text),
   (asciiBytes "Animals", jnat i.animals),
   (asciiBytes "Plants", jnat i.plants),
   (asciiBytes "Laws", jnat i.laws),
   (asciiBytes "WorldSize", jstr i.worldSize),
   (asciiBytes "Version", jstr i.version),
   (asciiBytes "EconomyDesc", jstr i.economyDesc),
   (asciiBytes "SkillSpecializationSetting", jstr i.skillSpecializationSetting),
   (asciiBytes "Language", jstr i.language),
   (asciiBytes "HasPassword", jbool i.hasPassword),
   (asciiBytes "HasMeteor", jbool i.hasMeteor),
   (asciiBytes "DistributionStationItems", jstr i.distributionStationItems),
   (asciiBytes "Playtimes", jstr i.playtimes),
   (asciiBytes "DiscordAddress", jstr i.discordAddress),
   (asciiBytes "IsPaused", jbool i.isPaused),
   (asciiBytes "ActiveAndOnlinePlayers", jnat i.activeAndOnlinePlayers),
   (asciiBytes "PeakActivePlayers", jnat i.peakActivePlayers),
   (asciiBytes "MaxActivePlayers", jnat i.maxActivePlayers),
   (asciiBytes "ShelfLifeMultiplier", st.shelfLifeMultiplier.text),
   (asciiBytes "ExhaustionAfterHours", st.exhaustionAfterHours.text),
   (asciiBytes "IsLimitingHours", jbool i.isLimitingHours),
   (asciiBytes "ServerAchievementsDict", jobj (i.serverAchievementsDict.map fun kv => (kv.1, jstr kv.2))),
   (asciiBytes "RelayAddress", jstr i.relayAddress),
   (asciiBytes "Access", jstr i.access),
   (asciiBytes "JoinUrl", jstr i.joinUrl)]

/-- the `/frontpage` document -/
def render (st : State) : Bytes := jobj [(asciiBytes "Info", jobj (members st))]

def defaultPort : Nat := 3001

/-! ### well-formedness -/

def okStr (s : Bytes) : Bool := validUtf8 s
def okU32 (n : Nat) : Bool := n < 2 ^ 32
/-- a literal that denotes a finite double (moderate exponents) -/
def okDecimal (d : Decimal) : Bool := d.magnitude.isSome && d.e.natAbs ≤ 400 && d.m < 10 ^ 400

def distinctKeys : List (Bytes × Bytes) → Bool
  | [] => true
  | (k, _) :: r => !(r.any fun p => p.1 == k) && distinctKeys r

def wf (st : State) : Bool :=
  let i := st.info
  okU32 i.gamePort &&
  okU32 i.webPort &&
  okStr i.description &&
  okStr i.detailedDescription &&
  okStr i.category &&
  okU32 i.onlinePlayers &&
  okU32 i.totalPlayers &&
  i.onlinePlayersNames.all okStr &&
  okDecimal st.timeSinceStart && i.timeSinceStart == st.timeSinceStart.bits &&
  okDecimal st.timeLeft && i.timeLeft == st.timeLeft.bits &&
  okU32 i.animals &&
  okU32 i.plants &&
  okU32 i.laws &&
  okStr i.worldSize &&
  okStr i.version &&
  okStr i.economyDesc &&
  okStr i.skillSpecializationSetting &&
  okStr i.language &&
  okStr i.distributionStationItems &&
  okStr i.playtimes &&
  okStr i.discordAddress &&
  okU32 i.activeAndOnlinePlayers &&
  okU32 i.peakActivePlayers &&
  okU32 i.maxActivePlayers &&
  okDecimal st.shelfLifeMultiplier && i.shelfLifeMultiplier == st.shelfLifeMultiplier.bits &&
  okDecimal st.exhaustionAfterHours && i.exhaustionAfterHours == st.exhaustionAfterHours.bits &&
  (i.serverAchievementsDict.all fun kv => okStr kv.1 && okStr kv.2) && distinctKeys i.serverAchievementsDict &&
  okStr i.relayAddress &&
  okStr i.access &&
  okStr i.joinUrl

end Gd.Eco.Spec
