import GdVerif.Proto.Mindustry
/-
  SPEC for C07 / Mindustry.  Written from the game's own server code
  (`core/src/mindustry/net/NetworkIO.java: writeServerData`, `ArcNetProvider.java: discovery ping`):

      writeString(buffer, name, 100); writeString(buffer, map, 64);
      buffer.putInt(totalPlayers); buffer.putInt(state.wave); buffer.putInt(Version.build);
      writeString(buffer, Version.type);
      buffer.put((byte)state.rules.mode().ordinal());            // Gamemode: survival, sandbox, attack, pvp, editor
      buffer.putInt(netServer.admins.getPlayerLimit());
      writeString(buffer, description, 100);
      if(state.rules.modeName != null) writeString(buffer, state.rules.modeName, 50);

  `writeString` = one length byte, then that many UTF-8 bytes.  `ByteBuffer` is big-endian.  The reply
  is one datagram of at most 500 bytes (`ByteBuffer.allocate(500)`); the request is the two bytes
  `-2, 1` (`FE 01`), sent to port 6567 by default (`Vars.port`).
-/
namespace Gd.Mindustry.Spec
open Gd Gd.Mindustry

/-- abstract server state: exactly what `writeServerData` writes -/
structure State where
  name : Bytes
  map : Bytes
  totalPlayers : Int
  wave : Int
  build : Int
  versionType : Bytes
  mode : GameMode
  playerLimit : Int
  description : Bytes
  modeName : Option Bytes
  deriving Repr

/-- `writeString` -/
def lenStr (s : Bytes) : Bytes := UInt8.ofNat s.length :: s

/-- `ByteBuffer.putInt` -/
def be32 (i : Int) : Bytes := natBE 4 (ofSigned 32 i)

/-- `Gamemode.ordinal()` -/
def ordinal : GameMode → Nat
  | .survival => 0 | .sandbox => 1 | .attack => 2 | .pvp => 3 | .editor => 4

def optStr : Option Bytes → Bytes
  | none => []
  | some s => lenStr s

/-- the reply datagram -/
def encode (st : State) : Bytes :=
  lenStr st.name ++ lenStr st.map ++ be32 st.totalPlayers ++ be32 st.wave ++ be32 st.build ++
  lenStr st.versionType ++ [UInt8.ofNat (ordinal st.mode)] ++ be32 st.playerLimit ++
  lenStr st.description ++ optStr st.modeName

/-- everything the server sends: one datagram in answer to the ping -/
def script (st : State) : List Bytes := [encode st]

/-- the response a user is entitled to: every field under the correspondingly named one -/
def expected (st : State) : ServerData :=
  { host := st.name, map := st.map, players := st.totalPlayers, wave := st.wave, version := st.build,
    versionType := st.versionType, gamemode := st.mode, playerLimit := st.playerLimit,
    description := st.description, modeName := st.modeName }

/-- C09: the discovery ping, once -/
def pingRequest : Bytes := [0xFE, 0x01]
def requests (_ : State) : List Bytes := [pingRequest]
def defaultPort : Nat := 6567

/-! ### well-formedness -/

/-- a string `writeString` can carry and the reader is specified for: valid UTF-8 of at most 255 bytes
without U+0000 (the reader ends the text at a NUL; what it does with one is `C07_mindustry_nul_cut`) -/
def okStr (s : Bytes) : Bool := s.length < 256 && !s.contains 0 && validUtf8 s

def okInt (i : Int) : Bool := decide (-(2 ^ 31 : Int) ≤ i) && decide (i < 2 ^ 31)

def wf (st : State) : Bool :=
  okStr st.name && okStr st.map && okInt st.totalPlayers && okInt st.wave && okInt st.build &&
  okStr st.versionType && okInt st.playerLimit && okStr st.description && st.modeName.all okStr &&
  (encode st).length ≤ 500

end Gd.Mindustry.Spec
