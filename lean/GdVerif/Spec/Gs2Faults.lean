import GdVerif.Spec.Gs2
import GdVerif.Spec.Faults
/-
  SPEC for C10 on whole GameSpy 2 queries: the exchange of `Spec/Gs2.lean` with FAULTS injected.

  The retried unit is the one request/response exchange including the header check (`request_data`).  A plan
  (`Faults.Plan1`) lists the attempts that end in a timeout-class failure (`false`: the reply is lost, `true`: the request
  cannot be sent) and the datagram that finally answers — the server's reply, or a malformed datagram —, or `none` when
  the client has given up.  `props/families/gs2.py: c10_build` builds exactly `Plan1.deliveries` / `Plan1.faults`.
-/
namespace Gd.Gs2.Spec
open Gd Gd.Gs2 Gd.Faults

/-- the plan in which the server's reply comes after the failed attempts `fails` -/
def recovering (y : Style) (st : State) (fails : List Bool) : Plan1 := ⟨fails, some (reply y st)⟩

/-- a datagram the header check of `request_data_impl` rejects for its first byte or its length: it does not start with
`00`, or is shorter than the 5-byte header -/
def malformed (m : Bytes) : Bool := m.length < 5 || m.head? != some 0

/-- the error it is rejected with: `PacketBad` for a wrong first byte, `PacketUnderflow` for a short header -/
def malformedError : Bytes → ErrKind
  | [] => .packetUnderflow
  | b :: _ => if b != 0 then .packetBad else .packetUnderflow

end Gd.Gs2.Spec
