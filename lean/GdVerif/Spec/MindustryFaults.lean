import GdVerif.Spec.Mindustry
import GdVerif.Spec.Faults
/-
  SPEC for C10 on whole Mindustry queries: the exchange of `Spec/Mindustry.lean` with FAULTS injected.

  The retried unit is the whole exchange INCLUDING THE SOCKET: every attempt creates a new UDP socket, sends the ping on
  it and waits for one datagram.  The peer's script is therefore a list of connection scripts, one per socket in order
  of creation.  A plan lists the attempts that end in a timeout-class failure — the ping cannot be sent (whatever the
  peer holds for that socket), or it goes out and nothing arrives on that socket (its script is empty or begins with a
  silence) — and how the unit ends: the server's reply on the next socket, nothing (the client has given up), a
  malformed datagram, or a socket that cannot be created (not a timeout-class error: it ends the query).
-/
namespace Gd.Mindustry.Spec
open Gd Gd.Mindustry Gd.Faults

/-- one attempt that ends in a timeout-class failure -/
structure Attempt where
  /-- `true`: the ping cannot be sent; `false`: it goes out and the reply is lost -/
  sendFault : Bool
  /-- what the peer holds for this attempt's socket -/
  conn : List Delivery
  deriving Repr, DecidableEq

/-- nothing arrives first: the script is empty or begins with a silence -/
def silentFirst : List Delivery → Bool
  | [] => true
  | .silence :: _ => true
  | .data _ :: _ => false

def Attempt.wf (a : Attempt) : Bool := a.sendFault || silentFirst a.conn

def Attempt.conns (a : Attempt) : List ConnScript := [.opened a.conn]
def Attempt.faults (a : Attempt) : List Bool := [a.sendFault]
def Attempt.error (a : Attempt) : ErrKind := attemptError a.sendFault
def Attempt.sends (a : Attempt) : List (Bytes × Bool) := [(pingRequest, a.sendFault)]

inductive Ending
  /-- the server answers on the next socket (`after`: whatever else the peer holds for it) -/
  | valid (after : List Delivery)
  /-- nothing more is scripted: every attempt failed -/
  | gaveUp
  /-- the datagram that arrives on the next socket is `datagram`, which is not a discovery reply -/
  | malformed (datagram : Bytes) (after : List Delivery)
  /-- the next socket cannot be created -/
  | refused
  deriving Repr, DecidableEq

structure Plan where
  fails : List Attempt
  ending : Ending
  deriving Repr, DecidableEq

def Ending.conns (st : State) : Ending → List ConnScript
  | .valid after => [.opened (.data (encode st) :: after)]
  | .gaveUp => []
  | .malformed m after => [.opened (.data m :: after)]
  | .refused => [.refused]

def Ending.faults : Ending → List Bool
  | .valid _ => [false]
  | .malformed _ _ => [false]
  | _ => []

def Ending.sends : Ending → List (Bytes × Bool)
  | .valid _ => [(pingRequest, false)]
  | .malformed _ _ => [(pingRequest, false)]
  | _ => []

/-- the scripts of the sockets the client creates, in order -/
def faultyScript (st : State) (plan : Plan) : List ConnScript :=
  plan.fails.flatMap Attempt.conns ++ plan.ending.conns st

def faultyFaults (plan : Plan) : List Bool := plan.fails.flatMap Attempt.faults ++ plan.ending.faults

/-- every datagram the client sends, with its failed flag: the ping, once per socket -/
def faultySends (plan : Plan) : List (Bytes × Bool) := plan.fails.flatMap Attempt.sends ++ plan.ending.sends

/-- a datagram that is not a discovery reply: empty, or the bytes of its first string (up to the length byte's count,
or a NUL) are not UTF-8 -/
def malformed : Bytes → Bool
  | [] => true
  | l :: body => !validUtf8 ((body.take l.toNat).takeWhile (· != 0))

/-- C10's domain for a retry count -/
def wfPlan (retries : Nat) (plan : Plan) : Bool :=
  plan.fails.all Attempt.wf &&
  (match plan.ending with
   | .valid _ => plan.fails.length ≤ retries
   | .gaveUp => plan.fails.length == retries + 1
   | .malformed m _ => plan.fails.length ≤ retries && malformed m && m.length ≤ MAX_BUFFER_SIZE
   | .refused => plan.fails.length ≤ retries)

/-- the outcome C10 prescribes -/
def faultyExpected (st : State) (plan : Plan) : Res ServerData :=
  match plan.ending with
  | .valid _ => .ok (expected st)
  | .gaveUp => .err (lastError Attempt.error plan.fails)
  | .malformed _ _ => .err .packetBad
  | .refused => .err .socketBind

def Plan.attempts (p : Plan) : Nat :=
  p.fails.length + (match p.ending with | .valid _ => 1 | .malformed _ _ => 1 | _ => 0)

end Gd.Mindustry.Spec
