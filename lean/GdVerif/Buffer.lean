import GdVerif.Base
/-
  MODEL of `crates/lib/src/buffer.rs`: the packet reader (`Buffer`) and the
  string decoders, as they are in the repaired tree (string decoders clamp
  the cursor to the end of the packet).

  Representation: a zipper.  `pre` are the bytes before the cursor in reverse
  order, `rest` the bytes from the cursor on.  `data = pre.reverse ++ rest`,
  `cursor = pre.length`.  The representation itself is under the
  correspondence check: C17's tie prints `current_position()` and
  `remaining_length()` of the real reader after every operation.
-/
namespace Gd

structure Buf where
  pre : Bytes
  rest : Bytes
  deriving Repr, DecidableEq

namespace Buf

def new (data : Bytes) : Buf := ⟨[], data⟩
/-- `current_position()` -/
def pos (b : Buf) : Nat := b.pre.length
/-- the packet -/
def data (b : Buf) : Bytes := b.pre.reverse ++ b.rest
/-- `data_length()` -/
def len (b : Buf) : Nat := b.pre.length + b.rest.length
/-- `remaining_length()` (`data.len() - cursor`) -/
def remaining (b : Buf) : Nat := b.rest.length
/-- move the cursor `n ≤ rest.length` bytes forward -/
def advance (b : Buf) (n : Nat) : Buf := ⟨(b.rest.take n).reverse ++ b.pre, b.rest.drop n⟩
/-- move the cursor `n ≤ pre.length` bytes backward -/
def retreat (b : Buf) (n : Nat) : Buf := ⟨b.pre.drop n, (b.pre.take n).reverse ++ b.rest⟩

end Buf

/-- A parser over the packet reader: `&mut Buffer -> GDResult<T>`. -/
def Par (α : Type) := Buf → Res (α × Buf)

namespace Par

@[inline] def pure' (a : α) : Par α := fun b => .ok (a, b)

@[inline] def bind' (p : Par α) (f : α → Par β) : Par β := fun b =>
  match p b with
  | .ok (a, b') => f a b'
  | .err k => .err k
  | .crash => .crash

instance : Monad Par where
  pure := pure'
  bind := bind'

/-- lift a pure `Res` computation (a `?` on something that does not touch the buffer) -/
@[inline] def lift (r : Res α) : Par α := fun b =>
  match r with
  | .ok a => .ok (a, b)
  | .err k => .err k
  | .crash => .crash

@[inline] def fail (k : ErrKind) : Par α := fun _ => .err k
@[inline] def crash : Par α := fun _ => .crash

/-- run on a fresh buffer over `data`, returning only the value -/
def run (p : Par α) (data : Bytes) : Res α :=
  match p (Buf.new data) with
  | .ok (a, _) => .ok a
  | .err k => .err k
  | .crash => .crash

/-- `.map_err(|_| k)` on a parser -/
def mapErr (p : Par α) (k : ErrKind) : Par α := fun b =>
  match p b with
  | .err _ => .err k
  | r => r

end Par

/-! ## Primitive reads -/

/-- `remaining_length()` -/
def remainingLength : Par Nat := fun b => .ok (b.remaining, b)

/-- `current_position()` -/
def currentPosition : Par Nat := fun b => .ok (b.pos, b)

/-- `remaining_bytes()` (does not move the cursor) -/
def remainingBytes : Par Bytes := fun b => .ok (b.rest, b)

/-- `Buffer::read::<uN>()` for a `w`-byte unsigned integer. -/
def readUnsigned (e : Endian) (w : Nat) : Par Nat := fun b =>
  if b.remaining < w then .err .packetUnderflow
  else .ok (e.decode (b.rest.take w), b.advance w)

def readSigned (e : Endian) (w : Nat) : Par Int := fun b =>
  match readUnsigned e w b with
  | .ok (n, b') => .ok (toSigned (8 * w) n, b')
  | .err k => .err k
  | .crash => .crash

def readU8 : Par Nat := readUnsigned .little 1
/-- a byte as a byte -/
def readByte : Par UInt8 := fun b =>
  match b.rest with
  | [] => .err .packetUnderflow
  | x :: _ => .ok (x, b.advance 1)

/-- `move_cursor(offset)` -/
def moveCursor (off : Int) : Par Unit := fun b =>
  let new : Int := (b.pos : Int) + off
  if new < 0 || new > (b.len : Int) then .err .packetBad
  else if off ≥ 0 then .ok ((), b.advance off.toNat)
  else .ok ((), b.retreat (-off).toNat)

/-- `switch_endian_chunk(size)`: the next `size` bytes as a new packet; the
cursor moves past them. -/
def switchEndianChunk (size : Nat) : Par Bytes := fun b =>
  if size > b.remaining then .err .packetBad
  else .ok (b.rest.take size, b.advance size)

/-! ## String decoders

Each decoder is a function of the remaining slice and the delimiter returning
the decoded text (UTF-8 bytes) and the number of bytes consumed. -/

/-- index of the first `d`, or the length -/
def findByte (d : UInt8) : Bytes → Nat
  | [] => 0
  | b :: r => if b == d then 0 else findByte d r + 1

/-- `Utf8Decoder::decode_string` -/
def utf8Dec (d : UInt8) (sl : Bytes) : Res (Bytes × Nat) :=
  let position := findByte d sl
  let s := sl.take position
  if !validUtf8 s then .err .packetBad
  else .ok (s, min (position + 1) sl.length)

/-- `Utf8LengthPrefixedDecoder::decode_string` -/
def utf8LenDec (d : UInt8) (sl : Bytes) : Res (Bytes × Nat) :=
  match sl with
  | [] => .err .packetBad
  | l :: body =>
    let window := body.take l.toNat
    let position := findByte d window
    let s := body.take position
    if !validUtf8 s then .err .packetBad
    else .ok (s, 1 + window.length)

/-- byte offset of the first 2-aligned chunk equal to `[d0, d1]`, if any -/
def findPair (d0 d1 : UInt8) : Bytes → Option Nat
  | a :: b :: r => if a == d0 && b == d1 then some 0 else (findPair d0 d1 r).map (· + 2)
  | _ => none

/-- `Utf16Decoder::<B>::decode_string` -/
def utf16Dec (e : Endian) (d0 d1 : UInt8) (sl : Bytes) : Res (Bytes × Nat) :=
  let position := match findPair d0 d1 sl with
    | some p => p
    | none => sl.length - sl.length % 2
  match utf16Decode (unitsOf e (sl.take position)) with
  | none => .err .packetBad
  | some cs => .ok (utf8Encode cs, min (position + 2) sl.length)

/-- `Buffer::read_string::<D>(until)` for a decoder given as a function -/
def readStringWith (dec : Bytes → Res (Bytes × Nat)) : Par Bytes := fun b =>
  match dec b.rest with
  | .ok (s, n) => .ok (s, b.advance n)
  | .err k => .err k
  | .crash => .crash

/-- NUL-terminated UTF-8 string -/
def readCStr : Par Bytes := readStringWith (utf8Dec 0)
/-- UTF-8 string up to a given delimiter byte -/
def readStrUntil (d : UInt8) : Par Bytes := readStringWith (utf8Dec d)
def readLenStr : Par Bytes := readStringWith (utf8LenDec 0)
def readUtf16 (e : Endian) : Par Bytes := readStringWith (utf16Dec e 0 0)

/-! ## `utils.rs` -/

/-- `u8_lower_upper` -/
def lowerUpper (n : Nat) : Nat × Nat := (n % 16, n / 16)

/-- `error_by_expected_size(expected, size)` -/
def errorByExpectedSize (expected size : Nat) : Res Unit :=
  if size > expected then .err .packetOverflow
  else if size < expected then .err .packetUnderflow
  else .ok ()

/-! ## Loop combinators (fuel is a measure; "fuel suffices" is a theorem) -/

/-- `while buffer.remaining_length() > 0 { st = body(st)? }` -/
def whileRemaining (body : σ → Par σ) : Nat → σ → Par σ
  | 0, _ => Par.crash
  | fuel + 1, st => fun b =>
    if b.remaining == 0 then .ok (st, b)
    else match body st b with
      | .ok (st', b') => whileRemaining body fuel st' b'
      | .err k => .err k
      | .crash => .crash

/-- `for _ in 0..n { acc.push(item()?) }` -/
def repeatN (item : Par α) : Nat → Par (List α)
  | 0 => pure []
  | n + 1 => do
    let x ← item
    let xs ← repeatN item n
    pure (x :: xs)

end Gd
