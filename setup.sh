#!/bin/sh
# Build the framework from files on disk only (offline).
set -e
cd "$(dirname "$0")"
export CARGO_NET_OFFLINE=true
mkdir -p .work evidence
[ -f harness/Cargo.lock ] || cp repo-link/Cargo.lock harness/Cargo.lock
(cd harness && cargo build --offline)
if [ -f tools/xlate.py ]; then python3 tools/xlate.py; fi
(cd lean && lake build GdVerif gdmodel)
